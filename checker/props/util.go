package props

import (
	"reflect"
	"fmt"
	"go/ast"
	"go/constant"
	"go/token"
	"go/types"
	"regexp"
	"sort"
	"strings"
	"sync"

	"octoverif/core"
	"octoverif/engine/absint"
)

// typeIDs returns the constants of type octosql.TypeID by name.
func typeIDs(p *core.Program) map[string]int64 {
	out := map[string]int64{}
	pkg := p.Pkg("octosql")
	if pkg == nil {
		return out
	}
	sc := pkg.Types.Scope()
	for _, n := range sc.Names() {
		if c, ok := sc.Lookup(n).(*types.Const); ok {
			if nt, ok := c.Type().(*types.Named); ok && nt.Obj().Name() == "TypeID" {
				v, _ := constant.Int64Val(c.Val())
				out[n] = v
			}
		}
	}
	return out
}

func sortedKeys[V any](m map[string]V) []string {
	ks := make([]string, 0, len(m))
	for k := range m {
		ks = append(ks, k)
	}
	sort.Strings(ks)
	return ks
}

// newInterp prepares an interpreter for a function of the loaded program.
func newInterp(p *core.Program, fn *core.FuncRef) *absint.Interp {
	in := &absint.Interp{Info: fn.Info(), Prog: p}
	in.Hooks.Inline = helperInline(p, fn.Pkg.PkgPath, fn.Obj)
	in.Hooks.FreeVar = func(v *types.Var) ast.Expr { return pureDefinition(fn, v) }
	in.Hooks.FreeStruct = func(v *types.Var) (ast.Expr, map[string]bool) { return objectDefinition(p, fn, v) }
	in.Hooks.FreeClosure = func(v *types.Var) *ast.FuncLit {
		// a local of the enclosing function bound exactly once, to a literal (`limitReached := func() bool {…}`)
		info := fn.Info()
		var lit *ast.FuncLit
		n := 0
		ast.Inspect(fn.Decl.Body, func(m ast.Node) bool {
			as, ok := m.(*ast.AssignStmt)
			if !ok || len(as.Lhs) != len(as.Rhs) {
				return true
			}
			for i, l := range as.Lhs {
				if id, ok := l.(*ast.Ident); ok && (info.Defs[id] == v || info.Uses[id] == v) {
					n++
					lit, _ = core.Unparen(as.Rhs[i]).(*ast.FuncLit)
				}
			}
			return true
		})
		if n == 1 {
			return lit
		}
		return nil
	}
	return in
}

// newLitInterp: an interpreter for a literal found in package pkgRel (descriptor tables), with helper inlining.
func newLitInterp(p *core.Program, info *types.Info, pkgRel string) *absint.Interp {
	in := &absint.Interp{Info: info, Prog: p}
	if pkg := p.Pkg(pkgRel); pkg != nil {
		in.Hooks.Inline = helperInline(p, pkg.PkgPath, nil)
		// variables the literal captures are looked up in the function that declares them
		enclosing := func(v *types.Var) *core.FuncRef {
			for _, fr := range p.AllFuncs(pkgRel) {
				if fr.Pkg == pkg && fr.Decl != nil && fr.Decl.Body != nil && v.Pos() >= fr.Decl.Body.Pos() && v.Pos() <= fr.Decl.Body.End() {
					return fr
				}
			}
			return nil
		}
		in.Hooks.FreeClosure = func(v *types.Var) *ast.FuncLit {
			if fr := enclosing(v); fr != nil {
				return onceBoundLiteral(fr, v)
			}
			return nil
		}
		in.Hooks.FreeVar = func(v *types.Var) ast.Expr {
			if fr := enclosing(v); fr != nil {
				return pureDefinition(fr, v)
			}
			return nil
		}
	}
	return in
}

// onceBoundLiteral: the literal a local of fn is bound to, when it is bound exactly once (`f := func(…) {…}`).
func onceBoundLiteral(fn *core.FuncRef, v *types.Var) *ast.FuncLit {
	info := fn.Info()
	var lit *ast.FuncLit
	n := 0
	ast.Inspect(fn.Decl.Body, func(m ast.Node) bool {
		as, ok := m.(*ast.AssignStmt)
		if !ok || len(as.Lhs) != len(as.Rhs) {
			return true
		}
		for i, l := range as.Lhs {
			if id, ok := l.(*ast.Ident); ok && (info.Defs[id] == v || info.Uses[id] == v) {
				n++
				lit, _ = core.Unparen(as.Rhs[i]).(*ast.FuncLit)
			}
		}
		return true
	})
	if n == 1 {
		return lit
	}
	return nil
}

var helperDecls map[*core.Program]map[*types.Func]*core.FuncRef

// helperInline makes *unexported helpers of the package under analysis* transparent: a rule that interprets a
// function follows it into the small functions a maintainer may have extracted from it (extract-function is the most
// common harmless refactoring), instead of seeing an opaque call. Exported functions, interface methods, other
// packages and recursion stay opaque (rules name those calls in their hooks), and a rule's own Call hook always wins.
func helperInline(p *core.Program, pkgPath string, root *types.Func) func(fn *types.Func) (*ast.FuncDecl, *types.Info) {
	if helperDecls == nil {
		helperDecls = map[*core.Program]map[*types.Func]*core.FuncRef{}
	}
	idx := helperDecls[p]
	if idx == nil {
		idx = map[*types.Func]*core.FuncRef{}
		for _, fr := range p.AllFuncs() {
			if fr.Obj != nil && fr.Decl != nil && fr.Decl.Body != nil {
				idx[fr.Obj] = fr
			}
		}
		helperDecls[p] = idx
	}
	active := map[*types.Func]int{}
	_ = active
	return func(fn *types.Func) (*ast.FuncDecl, *types.Info) {
		if fn == nil || fn.Pkg() == nil || fn.Pkg().Path() != pkgPath || fn == root || fn.Exported() {
			return nil, nil
		}
		fr := idx[fn]
		if fr == nil {
			return nil, nil
		}
		// no recursion: a helper that (transitively) calls itself or the root stays opaque
		if callsSelf(p, fr, idx, map[*types.Func]bool{}, fn, root, 0) {
			return nil, nil
		}
		return fr.Decl, fr.Info()
	}
}

func callsSelf(p *core.Program, fr *core.FuncRef, idx map[*types.Func]*core.FuncRef, seen map[*types.Func]bool, self, root *types.Func, depth int) bool {
	if depth > 4 {
		return true
	}
	found := false
	info := fr.Info()
	ast.Inspect(fr.Decl.Body, func(n ast.Node) bool {
		call, ok := n.(*ast.CallExpr)
		if !ok || found {
			return !found
		}
		f, ok := core.Callee(info, call).(*types.Func)
		if !ok {
			return true
		}
		if f == self {
			found = true
			return false
		}
		if root != nil && f == root {
			return true // a call back into the interpreted function stays an opaque call inside the inlined helper
		}
		if next := idx[f]; next != nil && !seen[f] && f.Pkg() == self.Pkg() && !f.Exported() {
			seen[f] = true
			if callsSelf(p, next, idx, seen, self, root, depth+1) {
				found = true
			}
		}
		return true
	})
	return found
}

func runDecl(in *absint.Interp, fn *core.FuncRef, init func(st *absint.State, bind func(string, absint.Val)), ref0 string) ([]*absint.Outcome, error) {
	return in.Run(fn.Decl.Type, fn.Decl.Recv, fn.Decl.Body, init, ref0)
}

// litBinds: function literals returned by a named factory, with the factory's parameters bound to the arguments of
// the call that produced them (registered by the function table).
var (
	litBinds   = map[*ast.FuncLit]map[types.Object]ast.Expr{}
	litBindsMu sync.Mutex
	// literals returned by factory calls, one node per call site
	factoryLits = map[*ast.CallExpr]*ast.FuncLit{}
	factoryMu   sync.Mutex
)

// litParamAlias: for a literal made by a factory, the root-side expression a factory parameter stands for ("" if
// obj is not such a parameter) — `next` is `produce`, `maxRecords` is `maxRecords`.
func litParamAlias(lit *ast.FuncLit, obj types.Object) string {
	if e, ok := getLitBinds(lit)[obj]; ok {
		return core.ExprStr(e)
	}
	return ""
}

func setLitBinds(lit *ast.FuncLit, b map[types.Object]ast.Expr) {
	litBindsMu.Lock()
	litBinds[lit] = b
	litBindsMu.Unlock()
}

func getLitBinds(lit *ast.FuncLit) map[types.Object]ast.Expr {
	litBindsMu.Lock()
	defer litBindsMu.Unlock()
	return litBinds[lit]
}

func runLit(in *absint.Interp, lit *ast.FuncLit, init func(st *absint.State, bind func(string, absint.Val)), ref0 string) ([]*absint.Outcome, error) {
	if binds := getLitBinds(lit); len(binds) > 0 {
		prev := in.Hooks.Ident
		in.Hooks.Ident = func(st *absint.State, obj types.Object) (absint.Val, bool) {
			if e, ok := binds[obj]; ok {
				if tv, ok := in.Info.Types[e]; ok && tv.Value != nil {
					return absint.Const{V: tv.Value}, true
				}
			}
			if prev != nil {
				return prev(st, obj)
			}
			return nil, false
		}
		defer func() { in.Hooks.Ident = prev }()
		// a parameter bound to a variable (or another pure expression) of the calling function reads as that
		prevFree := in.Hooks.FreeVar
		in.Hooks.FreeVar = func(v *types.Var) ast.Expr {
			if e, ok := binds[v]; ok {
				switch x := core.Unparen(e).(type) {
				case *ast.Ident, *ast.SelectorExpr, *ast.BasicLit:
					return x.(ast.Expr)
				}
			}
			if prevFree != nil {
				return prevFree(v)
			}
			return nil
		}
		defer func() { in.Hooks.FreeVar = prevFree }()
	}
	return in.Run(lit.Type, nil, lit.Body, init, ref0)
}

func showOutcomes(outs []*absint.Outcome) string {
	parts := make([]string, len(outs))
	for i, o := range outs {
		parts[i] = o.String()
	}
	return strings.Join(parts, " | ")
}

// allReturn checks that every outcome is a return of the single expected constant.
func allReturnInt(outs []*absint.Outcome, want int64) (bool, string) {
	if len(outs) == 0 {
		return false, "no outcome"
	}
	for _, o := range outs {
		if o.Kind != "return" || len(o.Values) != 1 {
			return false, "outcome: " + o.String()
		}
		v, ok := absint.AsInt(o.Values[0])
		if !ok || v != want {
			return false, fmt.Sprintf("returns %s, expected %d (%s)", o.Show(o.Values[0]), want, o.String())
		}
	}
	return true, ""
}

func allReturnBool(outs []*absint.Outcome, want bool) (bool, string) {
	if len(outs) == 0 {
		return false, "no outcome"
	}
	for _, o := range outs {
		if o.Kind != "return" || len(o.Values) != 1 {
			return false, "outcome: " + o.String()
		}
		if !(want && absint.IsTrue(o.Values[0])) && !(!want && absint.IsFalse(o.Values[0])) {
			return false, fmt.Sprintf("returns %s, expected %v (%s)", o.Show(o.Values[0]), want, o.String())
		}
	}
	return true, ""
}

// findFuncLits returns the function literals in n, outermost first.
func findFuncLits(n ast.Node) []*ast.FuncLit {
	var out []*ast.FuncLit
	ast.Inspect(n, func(m ast.Node) bool {
		if fl, ok := m.(*ast.FuncLit); ok {
			out = append(out, fl)
		}
		return true
	})
	return out
}

// returnsOfLit lists the return statements of a function literal (not of nested literals).
func returnsOfLit(lit *ast.FuncLit) []*ast.ReturnStmt {
	var out []*ast.ReturnStmt
	ast.Inspect(lit.Body, func(n ast.Node) bool {
		if fl, ok := n.(*ast.FuncLit); ok && fl != lit {
			return false
		}
		if rs, ok := n.(*ast.ReturnStmt); ok {
			out = append(out, rs)
		}
		return true
	})
	return out
}

// lookupConst returns a package-level constant as an abstract value.
func lookupConst(p *core.Program, rel, name string) absint.Val {
	pkg := p.Pkg(rel)
	if pkg == nil {
		return absint.S("?" + name)
	}
	if c, ok := pkg.Types.Scope().Lookup(name).(*types.Const); ok {
		return absint.Const{V: c.Val()}
	}
	return absint.S("?" + name)
}

func withMaxPaths(in *absint.Interp, n int) *absint.Interp {
	in.MaxPaths = n
	return in
}

// funcValueLit resolves an expression used as a function value to its body, so that a rule written for
// "the callback literal" also sees the callback when a maintainer has given it a name: a local variable assigned a
// literal once (`filterRecord := func(…){…}`), or a package-level function or method of the analysed module
// (`recordValuesEqual`, `octosql.HashManyValues`). The result is a synthetic literal sharing the declaration's
// type and body nodes (so positions and type information stay valid). nil when e is none of these.
func funcValueLit(p *core.Program, fn *core.FuncRef, e ast.Expr) *ast.FuncLit {
	e = core.Unparen(e)
	if lit, ok := e.(*ast.FuncLit); ok {
		return lit
	}
	// a factory of the same package: f(a, b) with `func f(x, y) F { …; return func(…) {…} }` — the returned literal,
	// as its own node per call site, with f's parameters bound to the arguments (see runLit, litParamAlias)
	if call, ok := e.(*ast.CallExpr); ok {
		factoryMu.Lock()
		cached, done := factoryLits[call]
		factoryMu.Unlock()
		if done {
			return cached
		}
		var out *ast.FuncLit
		if f, ok := core.Callee(fn.Info(), call).(*types.Func); ok && f.Pkg() != nil && f.Pkg().Path() == fn.Pkg.PkgPath && !call.Ellipsis.IsValid() {
			helperInline(p, "", nil)
			if fr := helperDecls[p][f]; fr != nil && fr.Decl.Body != nil && len(fr.Decl.Body.List) > 0 {
				if rs, ok := fr.Decl.Body.List[len(fr.Decl.Body.List)-1].(*ast.ReturnStmt); ok && len(rs.Results) == 1 {
					if inner, ok := core.Unparen(rs.Results[0]).(*ast.FuncLit); ok {
						out = &ast.FuncLit{Type: inner.Type, Body: inner.Body}
						binds := map[types.Object]ast.Expr{}
						k := 0
						for _, fl := range fr.Decl.Type.Params.List {
							for _, nm := range fl.Names {
								if o := fr.Info().Defs[nm]; o != nil && k < len(call.Args) {
									binds[o] = call.Args[k]
								}
								k++
							}
						}
						// a method used as a factory: its receiver stands for the value it was called on
						if fr.Decl.Recv != nil && len(fr.Decl.Recv.List) == 1 && len(fr.Decl.Recv.List[0].Names) == 1 {
							if sel, ok := core.Unparen(call.Fun).(*ast.SelectorExpr); ok {
								if o := fr.Info().Defs[fr.Decl.Recv.List[0].Names[0]]; o != nil {
									binds[o] = sel.X
								}
							}
						}
						setLitBinds(out, binds)
					}
				}
			}
		}
		factoryMu.Lock()
		factoryLits[call] = out
		factoryMu.Unlock()
		return out
	}
	info := fn.Info()
	var obj types.Object
	switch v := e.(type) {
	case *ast.Ident:
		obj = info.Uses[v]
	case *ast.SelectorExpr:
		obj = info.Uses[v.Sel]
	}
	switch o := obj.(type) {
	case *types.Var:
		// a local assigned exactly once, to a literal
		var lit *ast.FuncLit
		n := 0
		ast.Inspect(fn.Decl.Body, func(m ast.Node) bool {
			as, ok := m.(*ast.AssignStmt)
			if !ok || len(as.Lhs) != len(as.Rhs) {
				return true
			}
			for i, l := range as.Lhs {
				if id, ok := l.(*ast.Ident); ok && (info.Defs[id] == o || info.Uses[id] == o) {
					n++
					lit, _ = core.Unparen(as.Rhs[i]).(*ast.FuncLit)
				}
			}
			return true
		})
		if n == 1 {
			return lit
		}
	case *types.Func:
		helperInline(p, "", nil) // make sure the declaration index is built
		if fr := helperDecls[p][o]; fr != nil {
			// a method value (x.M): the method's body with its receiver standing for x — one node per use
			if sel, ok := e.(*ast.SelectorExpr); ok && fr.Decl.Recv != nil && len(fr.Decl.Recv.List) == 1 && len(fr.Decl.Recv.List[0].Names) == 1 {
				if s := info.Selections[sel]; s != nil && s.Kind() == types.MethodVal {
					factoryMu.Lock()
					cached, done := methodValueLits[sel]
					factoryMu.Unlock()
					if done {
						return cached
					}
					out := &ast.FuncLit{Type: fr.Decl.Type, Body: fr.Decl.Body}
					if ro := fr.Info().Defs[fr.Decl.Recv.List[0].Names[0]]; ro != nil {
						setLitBinds(out, map[types.Object]ast.Expr{ro: sel.X})
					}
					factoryMu.Lock()
					methodValueLits[sel] = out
					factoryMu.Unlock()
					return out
				}
			}
			return &ast.FuncLit{Type: fr.Decl.Type, Body: fr.Decl.Body}
		}
	}
	return nil
}

var methodValueLits = map[*ast.SelectorExpr]*ast.FuncLit{}

// helperClosure: fn followed by the unexported functions and methods of its own package that it reaches through
// static calls (transitively, each once). AST rules that look for a construct "in function F" look in this closure,
// so that the construct is still found after a maintainer moved it into a helper.
func helperClosure(p *core.Program, fn *core.FuncRef) []*core.FuncRef {
	helperInline(p, "", nil)
	idx := helperDecls[p]
	out := []*core.FuncRef{fn}
	seen := map[*types.Func]bool{}
	if fn.Obj != nil {
		seen[fn.Obj] = true
	}
	for i := 0; i < len(out) && i < 40; i++ {
		cur := out[i]
		info := cur.Info()
		ast.Inspect(cur.Decl.Body, func(n ast.Node) bool {
			call, ok := n.(*ast.CallExpr)
			if !ok {
				return true
			}
			f, ok := core.Callee(info, call).(*types.Func)
			if !ok || f.Pkg() == nil || f.Pkg().Path() != fn.Pkg.PkgPath || f.Exported() || seen[f] {
				return true
			}
			if fr := idx[f]; fr != nil {
				seen[f] = true
				out = append(out, fr)
			}
			return true
		})
	}
	return out
}

// structDefinition: for a struct-typed local of fn defined once by a composite literal (and never assigned as a
// whole or address-taken afterwards), the literal and the fields of it that no code of the package ever writes
// (`x.f = …`, `x.f++`, `&x.f`, through any variable of that type) and whose values are pure: those fields hold the
// literal's value whenever a captured use reads them.
func structDefinition(p *core.Program, fn *core.FuncRef, v *types.Var) (*ast.CompositeLit, map[string]bool) {
	if fn == nil || fn.Decl == nil || fn.Decl.Body == nil || v.Pos() < fn.Decl.Body.Pos() || v.Pos() > fn.Decl.Body.End() {
		return nil, nil
	}
	st, ok := v.Type().Underlying().(*types.Struct)
	if !ok {
		return nil, nil
	}
	info := fn.Info()
	def := singleDef(info, fn.Decl.Body, v)
	lit, ok := core.Unparen(def).(*ast.CompositeLit)
	if def == nil || !ok {
		return nil, nil
	}
	return stableLiteralFields(fn, st, lit)
}

// objectDefinition: for a local of fn defined once by `T{…}`, `&T{…}` or a call of an unexported constructor of the
// package (a function whose result is such a literal), the defining expression and the fields no code of the package
// ever writes — the object as a captured use finds it, whatever earlier uses did to its other fields.
func objectDefinition(p *core.Program, fn *core.FuncRef, v *types.Var) (ast.Expr, map[string]bool) {
	if fn == nil || fn.Decl == nil || fn.Decl.Body == nil || v.Pos() < fn.Decl.Body.Pos() || v.Pos() > fn.Decl.Body.End() {
		return nil, nil
	}
	t := v.Type()
	if pt, ok := t.Underlying().(*types.Pointer); ok {
		t = pt.Elem()
	}
	st, ok := t.Underlying().(*types.Struct)
	if !ok {
		return nil, nil
	}
	info := fn.Info()
	def := singleDef(info, fn.Decl.Body, v)
	if def == nil {
		return nil, nil
	}
	var lit *ast.CompositeLit
	var litOwner = fn
	switch x := core.Unparen(def).(type) {
	case *ast.CompositeLit:
		lit = x
	case *ast.UnaryExpr:
		if x.Op == token.AND {
			lit, _ = core.Unparen(x.X).(*ast.CompositeLit)
		}
	case *ast.CallExpr:
		f, ok := core.Callee(info, x).(*types.Func)
		if !ok || f.Pkg() == nil || f.Pkg().Path() != fn.Pkg.PkgPath || f.Exported() {
			return nil, nil
		}
		helperInline(p, "", nil)
		fr := helperDecls[p][f]
		if fr == nil || fr.Decl.Body == nil || len(fr.Decl.Body.List) == 0 {
			return nil, nil
		}
		rs, ok := fr.Decl.Body.List[len(fr.Decl.Body.List)-1].(*ast.ReturnStmt)
		if !ok || len(rs.Results) != 1 {
			return nil, nil
		}
		r := core.Unparen(rs.Results[0])
		if ue, ok := r.(*ast.UnaryExpr); ok && ue.Op == token.AND {
			r = core.Unparen(ue.X)
		}
		lit, _ = r.(*ast.CompositeLit)
		litOwner = fr
	}
	if lit == nil {
		return nil, nil
	}
	_, stable := stableLiteralFields(litOwner, st, lit)
	if stable == nil {
		return nil, nil
	}
	return def, stable
}

func stableLiteralFields(fn *core.FuncRef, st *types.Struct, lit *ast.CompositeLit) (*ast.CompositeLit, map[string]bool) {
	info := fn.Info()
	written := map[*types.Var]bool{}
	for _, f := range fn.Pkg.Syntax {
		ast.Inspect(f, func(n ast.Node) bool {
			mark := func(e ast.Expr) {
				if sel, ok := core.Unparen(e).(*ast.SelectorExpr); ok {
					if fv, ok := info.Uses[sel.Sel].(*types.Var); ok && fv.IsField() {
						written[fv] = true
					}
				}
			}
			switch x := n.(type) {
			case *ast.AssignStmt:
				for _, l := range x.Lhs {
					mark(l)
				}
			case *ast.IncDecStmt:
				mark(x.X)
			case *ast.UnaryExpr:
				if x.Op == token.AND {
					mark(x.X)
				}
			}
			return true
		})
	}
	stable := map[string]bool{}
	for _, el := range lit.Elts {
		kv, ok := el.(*ast.KeyValueExpr)
		if !ok {
			return nil, nil
		}
		id, ok := kv.Key.(*ast.Ident)
		if !ok {
			continue
		}
		for i := 0; i < st.NumFields(); i++ {
			if st.Field(i).Name() == id.Name && !written[st.Field(i)] {
				stable[id.Name] = true
			}
		}
	}
	if len(stable) == 0 {
		return nil, nil
	}
	return lit, stable
}

// pureDefinition: for a local of fn that is defined once, by an expression without calls or effects over operands
// that are themselves never reassigned (parameters, such locals, constants, their fields), that expression. A literal
// of fn that captures the variable sees exactly that value, so an interpretation of the literal on its own may put
// the definition in the variable's place — `n := int64(cfg.Size)` hoisted out of a callback reads as int64(cfg.Size).
func pureDefinition(fn *core.FuncRef, v *types.Var) ast.Expr {
	if fn == nil || fn.Decl == nil || fn.Decl.Body == nil || v.Pos() < fn.Decl.Body.Pos() || v.Pos() > fn.Decl.Body.End() {
		return nil
	}
	info := fn.Info()
	def := singleDef(info, fn.Decl.Body, v)
	if def == nil {
		return nil
	}
	var pure func(e ast.Expr, depth int) bool
	stable := func(o types.Object) bool {
		switch x := o.(type) {
		case *types.Const, *types.Nil:
			return true
		case *types.Var:
			if x.IsField() {
				return true
			}
			if x.Pkg() != nil && x.Parent() == x.Pkg().Scope() {
				return false // package-level state may change
			}
			// a parameter or local that is never written after its definition
			writes := 0
			ast.Inspect(fn.Decl.Body, func(n ast.Node) bool {
				switch s := n.(type) {
				case *ast.AssignStmt:
					for _, l := range s.Lhs {
						// the variable itself, or a field or element of it
						for {
							switch y := core.Unparen(l).(type) {
							case *ast.SelectorExpr:
								l = y.X
								continue
							case *ast.IndexExpr:
								l = y.X
								continue
							case *ast.StarExpr:
								l = y.X
								continue
							}
							break
						}
						if id, ok := core.Unparen(l).(*ast.Ident); ok && info.Uses[id] == x {
							writes++
						}
					}
				case *ast.IncDecStmt:
					if id, ok := core.Unparen(s.X).(*ast.Ident); ok && info.Uses[id] == x {
						writes++
					}
				case *ast.UnaryExpr:
					if id, ok := core.Unparen(s.X).(*ast.Ident); ok && s.Op == token.AND && info.Uses[id] == x {
						writes++
					}
				case *ast.RangeStmt:
					for _, e := range []ast.Expr{s.Key, s.Value} {
						if id, ok := e.(*ast.Ident); ok && (info.Uses[id] == x || info.Defs[id] == x) {
							writes++
						}
					}
				}
				return true
			})
			return writes == 0
		}
		return false
	}
	pure = func(e ast.Expr, depth int) bool {
		if depth > 8 {
			return false
		}
		switch x := core.Unparen(e).(type) {
		case *ast.BasicLit:
			return true
		case *ast.Ident:
			o := info.Uses[x]
			return o != nil && stable(o)
		case *ast.SelectorExpr:
			if id, ok := x.X.(*ast.Ident); ok {
				if _, isPkg := info.Uses[id].(*types.PkgName); isPkg {
					_, isConst := info.Uses[x.Sel].(*types.Const)
					return isConst
				}
			}
			if sel := info.Selections[x]; sel != nil && sel.Kind() != types.FieldVal {
				return false
			}
			return pure(x.X, depth+1)
		case *ast.BinaryExpr:
			return pure(x.X, depth+1) && pure(x.Y, depth+1)
		case *ast.UnaryExpr:
			return (x.Op == token.SUB || x.Op == token.NOT || x.Op == token.ADD) && pure(x.X, depth+1)
		case *ast.CallExpr:
			// a conversion
			if tv, ok := info.Types[x.Fun]; ok && tv.IsType() && len(x.Args) == 1 {
				return pure(x.Args[0], depth+1)
			}
		}
		return false
	}
	if !pure(def, 0) {
		return nil
	}
	return def
}

// evaluatedFieldVar: the variable that `x, err := <recv>.<field>.Evaluate(…)` defines in fn ("" if none).
func evaluatedFieldVar(fn *core.FuncRef, recvName, field string) string {
	name := ""
	ast.Inspect(fn.Decl.Body, func(n ast.Node) bool {
		if as, ok := n.(*ast.AssignStmt); ok && len(as.Rhs) == 1 && len(as.Lhs) >= 1 {
			if call, ok := as.Rhs[0].(*ast.CallExpr); ok && core.ExprStr(call.Fun) == recvName+"."+field+".Evaluate" {
				name = core.ExprStr(as.Lhs[0])
			}
		}
		return true
	})
	return name
}

// singleDef: the expression a local variable is defined by, when it is assigned exactly once under root (its
// definition) and its address is never taken — such a variable is a name for that expression's value.
func singleDef(info *types.Info, root ast.Node, obj types.Object) ast.Expr {
	var rhs ast.Expr
	n := 0
	ast.Inspect(root, func(m ast.Node) bool {
		switch x := m.(type) {
		case *ast.AssignStmt:
			for i, l := range x.Lhs {
				if id, ok := l.(*ast.Ident); ok && (info.Defs[id] == obj || info.Uses[id] == obj) {
					n++
					if len(x.Lhs) == len(x.Rhs) && x.Tok == token.DEFINE {
						rhs = x.Rhs[i]
					} else {
						n++
					}
				}
			}
		case *ast.ValueSpec:
			for i, id := range x.Names {
				if info.Defs[id] == obj {
					n++
					if len(x.Values) == len(x.Names) {
						rhs = x.Values[i]
					}
				}
			}
		case *ast.IncDecStmt:
			if id, ok := x.X.(*ast.Ident); ok && info.Uses[id] == obj {
				n += 2
			}
		case *ast.UnaryExpr:
			if id, ok := core.Unparen(x.X).(*ast.Ident); ok && x.Op == token.AND && info.Uses[id] == obj {
				n += 2
			}
		case *ast.RangeStmt:
			for _, e := range []ast.Expr{x.Key, x.Value} {
				if id, ok := e.(*ast.Ident); ok && (info.Defs[id] == obj || info.Uses[id] == obj) {
					n += 2
				}
			}
		}
		return true
	})
	if n == 1 {
		return rhs
	}
	return nil
}

func inspectAll(nodes []ast.Node, f func(ast.Node) bool) {
	for _, n := range nodes {
		if n == nil || reflect.ValueOf(n).IsNil() {
			continue
		}
		ast.Inspect(n, f)
	}
}

// bodyClosure: a body (of a function literal, say) followed by the bodies of the unexported helpers of package
// pkgPath it reaches through static calls. For AST rules over function literals — the counterpart of helperClosure.
func bodyClosure(p *core.Program, pkgPath string, info *types.Info, body ast.Node) []ast.Node {
	helperInline(p, "", nil)
	idx := helperDecls[p]
	out := []ast.Node{body}
	seen := map[*types.Func]bool{}
	for i := 0; i < len(out) && i < 40; i++ {
		ast.Inspect(out[i], func(n ast.Node) bool {
			call, ok := n.(*ast.CallExpr)
			if !ok {
				return true
			}
			f, ok := core.Callee(info, call).(*types.Func)
			if !ok || f.Pkg() == nil || f.Pkg().Path() != pkgPath || f.Exported() || seen[f] {
				return true
			}
			if fr := idx[f]; fr != nil {
				seen[f] = true
				out = append(out, fr.Decl.Body)
			}
			return true
		})
	}
	return out
}

// callSite: a static call of a function, with the function it sits in and its innermost enclosing literal.
type callSite struct {
	fn   *core.FuncRef
	call *ast.CallExpr
	lit  *ast.FuncLit
}

// staticCallers: the static call sites of fn in its own package (an unexported helper has no others).
func staticCallers(p *core.Program, fn *core.FuncRef) []callSite {
	var out []callSite
	if fn.Obj == nil {
		return nil
	}
	for _, g := range p.AllFuncs() {
		if g.Pkg != fn.Pkg || g.Decl.Body == nil || g.Obj == fn.Obj {
			continue
		}
		info := g.Info()
		core.WalkStack(g.Decl.Body, func(n ast.Node, stack []ast.Node) bool {
			if call, ok := n.(*ast.CallExpr); ok {
				if f, ok := core.Callee(info, call).(*types.Func); ok && f == fn.Obj {
					out = append(out, callSite{g, call, core.InnermostFuncLit(stack)})
				}
			}
			return true
		})
	}
	return out
}

// loopCount recognises a counted loop and returns the expression it counts to: `for i := 0; i < N; i++`,
// `for i := 1; i <= N; i++`, `for i := N; i > 0; i--`, `for i := N - 1; i >= 0; i--` (the usual ways of doing
// something N times). ok is false for any other loop.
func loopCount(fs *ast.ForStmt) (n string, ok bool) {
	if fs.Init == nil || fs.Cond == nil || fs.Post == nil {
		return "", false
	}
	as, ok1 := fs.Init.(*ast.AssignStmt)
	be, ok2 := core.Unparen(fs.Cond).(*ast.BinaryExpr)
	inc, ok3 := fs.Post.(*ast.IncDecStmt)
	if !ok1 || !ok2 || !ok3 || len(as.Lhs) != 1 || len(as.Rhs) != 1 {
		return "", false
	}
	v := core.ExprStr(as.Lhs[0])
	if core.ExprStr(inc.X) != v {
		return "", false
	}
	start := core.ExprStr(as.Rhs[0])
	x, y := core.ExprStr(be.X), core.ExprStr(be.Y)
	switch {
	case inc.Tok == token.INC && (start == "0" || start == "int64(0)") && be.Op == token.LSS && x == v:
		return y, true
	case inc.Tok == token.INC && (start == "0" || start == "int64(0)") && be.Op == token.GTR && y == v:
		return x, true
	case inc.Tok == token.INC && start == "1" && be.Op == token.LEQ && x == v:
		return y, true
	case inc.Tok == token.DEC && be.Op == token.GTR && x == v && y == "0":
		return start, true
	case inc.Tok == token.DEC && be.Op == token.GEQ && x == v && y == "0" && strings.HasSuffix(start, " - 1"):
		return strings.TrimSuffix(start, " - 1"), true
	}
	return "", false
}

// boundFunc is a function of a helper closure together with what its parameters stand for at its (first) call site
// inside the closure: parameter name → text of the argument expression, itself resolved through the caller's bindings.
type boundFunc struct {
	fn    *core.FuncRef
	binds map[string]string
	// conds: the conditions of the if statements whose then-branch encloses the call site (outermost first), the
	// callers' included — what is known to hold when the helper runs
	conds []string
}

// helperClosureBound is helperClosure with parameter bindings: a rule that looks for "a loop over x.nullCheckIndices"
// finds the loop over a helper's parameter that was handed x.nullCheckIndices.
func helperClosureBound(p *core.Program, fn *core.FuncRef) []boundFunc {
	helperInline(p, "", nil)
	idx := helperDecls[p]
	out := []boundFunc{{fn, map[string]string{}, nil}}
	// a helper is entered once per distinct binding of its parameters (f(a); f(b) are two entries)
	seen := map[string]bool{}
	onStack := map[*types.Func]bool{}
	if fn.Obj != nil {
		onStack[fn.Obj] = true
	}
	for i := 0; i < len(out) && i < 40; i++ {
		cur := out[i]
		info := cur.fn.Info()
		core.WalkStack(cur.fn.Decl.Body, func(n ast.Node, stack []ast.Node) bool {
			call, ok := n.(*ast.CallExpr)
			if !ok {
				return true
			}
			f, ok := core.Callee(info, call).(*types.Func)
			if !ok || f.Pkg() == nil || f.Pkg().Path() != fn.Pkg.PkgPath || f.Exported() || onStack[f] || f == cur.fn.Obj {
				return true
			}
			fr := idx[f]
			if fr == nil {
				return true
			}
			conds := append([]string(nil), cur.conds...)
			for k, anc := range stack {
				if is, ok := anc.(*ast.IfStmt); ok && k+1 < len(stack) && stack[k+1] == ast.Node(is.Body) {
					conds = append(conds, resolveText(core.ExprStr(is.Cond), cur.binds))
				}
			}
			b := map[string]string{}
			k := 0
			if fr.Decl.Type.Params != nil {
				for _, fl := range fr.Decl.Type.Params.List {
					for _, nm := range fl.Names {
						if k < len(call.Args) {
							b[nm.Name] = resolveText(core.ExprStr(call.Args[k]), cur.binds)
						}
						k++
					}
				}
			}
			// the receiver of a method call
			if fr.Decl.Recv != nil && len(fr.Decl.Recv.List) == 1 && len(fr.Decl.Recv.List[0].Names) == 1 {
				if sel, ok := call.Fun.(*ast.SelectorExpr); ok {
					b[fr.Decl.Recv.List[0].Names[0].Name] = resolveText(core.ExprStr(sel.X), cur.binds)
				}
			}
			sig := f.FullName() + fmt.Sprint(b)
			if seen[sig] {
				return true
			}
			seen[sig] = true
			out = append(out, boundFunc{fr, b, conds})
			return true
		})
	}
	return out
}

var identRE = regexp.MustCompile(`[A-Za-z_][A-Za-z0-9_]*`)

// resolveText replaces the leading identifier of an expression text by what it is bound to (x.f with x ↦ a.b gives a.b.f).
func resolveText(s string, binds map[string]string) string {
	loc := identRE.FindStringIndex(s)
	if loc == nil || loc[0] != 0 {
		return s
	}
	if to, ok := binds[s[:loc[1]]]; ok {
		return to + s[loc[1]:]
	}
	return s
}
