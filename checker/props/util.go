package props

import (
	"fmt"
	"go/ast"
	"go/constant"
	"go/types"
	"sort"
	"strings"

	"octoverif/core"
	"octoverif/engine/absint"
)

// typeIDs returns the constants of type octosql.TypeID by name.
func typeIDs(p *core.Program) map[string]int64 {
	out := map[string]int64{}
	pkg := p.Pkg("octosql")
	if pkg == nil {
		return out
	}
	sc := pkg.Types.Scope()
	for _, n := range sc.Names() {
		if c, ok := sc.Lookup(n).(*types.Const); ok {
			if nt, ok := c.Type().(*types.Named); ok && nt.Obj().Name() == "TypeID" {
				v, _ := constant.Int64Val(c.Val())
				out[n] = v
			}
		}
	}
	return out
}

func sortedKeys[V any](m map[string]V) []string {
	ks := make([]string, 0, len(m))
	for k := range m {
		ks = append(ks, k)
	}
	sort.Strings(ks)
	return ks
}

// newInterp prepares an interpreter for a function of the loaded program.
func newInterp(p *core.Program, fn *core.FuncRef) *absint.Interp {
	return &absint.Interp{Info: fn.Info(), Prog: p}
}

func runDecl(in *absint.Interp, fn *core.FuncRef, init func(st *absint.State, bind func(string, absint.Val)), ref0 string) ([]*absint.Outcome, error) {
	return in.Run(fn.Decl.Type, fn.Decl.Recv, fn.Decl.Body, init, ref0)
}

func runLit(in *absint.Interp, lit *ast.FuncLit, init func(st *absint.State, bind func(string, absint.Val)), ref0 string) ([]*absint.Outcome, error) {
	return in.Run(lit.Type, nil, lit.Body, init, ref0)
}

func showOutcomes(outs []*absint.Outcome) string {
	parts := make([]string, len(outs))
	for i, o := range outs {
		parts[i] = o.String()
	}
	return strings.Join(parts, " | ")
}

// allReturn checks that every outcome is a return of the single expected constant.
func allReturnInt(outs []*absint.Outcome, want int64) (bool, string) {
	if len(outs) == 0 {
		return false, "no outcome"
	}
	for _, o := range outs {
		if o.Kind != "return" || len(o.Values) != 1 {
			return false, "outcome: " + o.String()
		}
		v, ok := absint.AsInt(o.Values[0])
		if !ok || v != want {
			return false, fmt.Sprintf("returns %s, expected %d (%s)", o.Show(o.Values[0]), want, o.String())
		}
	}
	return true, ""
}

func allReturnBool(outs []*absint.Outcome, want bool) (bool, string) {
	if len(outs) == 0 {
		return false, "no outcome"
	}
	for _, o := range outs {
		if o.Kind != "return" || len(o.Values) != 1 {
			return false, "outcome: " + o.String()
		}
		if !(want && absint.IsTrue(o.Values[0])) && !(!want && absint.IsFalse(o.Values[0])) {
			return false, fmt.Sprintf("returns %s, expected %v (%s)", o.Show(o.Values[0]), want, o.String())
		}
	}
	return true, ""
}

// findFuncLits returns the function literals in n, outermost first.
func findFuncLits(n ast.Node) []*ast.FuncLit {
	var out []*ast.FuncLit
	ast.Inspect(n, func(m ast.Node) bool {
		if fl, ok := m.(*ast.FuncLit); ok {
			out = append(out, fl)
		}
		return true
	})
	return out
}

// returnsOfLit lists the return statements of a function literal (not of nested literals).
func returnsOfLit(lit *ast.FuncLit) []*ast.ReturnStmt {
	var out []*ast.ReturnStmt
	ast.Inspect(lit.Body, func(n ast.Node) bool {
		if fl, ok := n.(*ast.FuncLit); ok && fl != lit {
			return false
		}
		if rs, ok := n.(*ast.ReturnStmt); ok {
			out = append(out, rs)
		}
		return true
	})
	return out
}

// lookupConst returns a package-level constant as an abstract value.
func lookupConst(p *core.Program, rel, name string) absint.Val {
	pkg := p.Pkg(rel)
	if pkg == nil {
		return absint.S("?" + name)
	}
	if c, ok := pkg.Types.Scope().Lookup(name).(*types.Const); ok {
		return absint.Const{V: c.Val()}
	}
	return absint.S("?" + name)
}
