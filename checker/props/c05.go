package props

import (
	"fmt"
	"go/ast"
	"go/token"
	"go/types"
	"regexp"
	"strings"

	"octoverif/core"
	"octoverif/engine/absint"
)

func init() {
	register(&Check{ID: "C05", Run: runC05,
		Explanation: "ABS6: every loop that applies a LIMIT (nodes.(*Limit).Run, nodes.produceOrderByItems, both table-printing loops of batch.(*OutputPrinter).Run) is abstractly interpreted under every scenario of the counter-vs-limit tests (counter below / at the limit, sequences up to length 3). On every path: each emitted row is counted exactly once (increments and emissions alternate), no row is emitted once a test has found the counter at the limit, a row is emitted only after the current counter value was tested — or, for the test-after style, the invariant `counter < limit` is established before the loop (a guard that handles LIMIT 0 without running the source) and re-established after every increment; reaching the limit stops the iteration. " +
			"MIR6: the three places that choose between Limit and OrderSensitiveTransform (physical Materialize, cmd csv/json, cmd stream_native) are the same boolean function of (has ORDER BY, has LIMIT, NoRetractions), and the table branch only adds a short-circuiting Limit under (no ORDER BY ∧ NoRetractions). " +
			"ERR4L: Limit swallows only its own sentinel error. ORD: ordered emitters walk the tree with Ascend and the bounded-tree optimisation drops DeleteMax only under noRetractionsPossible. ABS4: ORDER BY comparators (shared with C01).",
		NotDecided: []string{"that the rows emitted are the right rows beyond comparator orientation and ascending traversal", "nested placement beyond the shared Materialize path"},
	})
}

type limitSite struct {
	rel, fn string
	// which literal: the n-th function literal (in source order) that mentions the limit and emits
	emit string // callee name of the emission
	stop string // "false" (Ascend callback) or "error" (produce callback)
}

var incRe = regexp.MustCompile(`^\(*([A-Za-z_][A-Za-z0-9_]*)(?: \+ 1\))+$`)

func runC05(c *core.Ctx) {
	c.Rule("ORDPOS", "ORDER BY <position> is resolved or rejected, never sorted as a constant")
	checkOrderByOrdinal(c, "ORDPOS")
	c.Rule("FMTSTR", "printf-style calls have constant format strings")
	checkFormatStrings(c, "FMTSTR", []string{"outputs", "cmd", "execution", "physical", "logical", "datasources", "functions", "table_valued_functions", "aggregates", "octosql", "helpers"})
	c.Rule("PARSECOV", "no clause the grammar accepts is silently ignored by the parser")
	checkParserCoverage(c, "PARSECOV")
	c.Rule("RETRFLAG", "a node that retracts rows of its own declares NoRetractions false")
	checkRetractionFlags(c, "RETRFLAG")
	p := c.Prog
	ids := typeIDs(p)
	c.Rule("ABS6", "limit loops: every row counted once, nothing emitted at the limit, test or invariant before every emission")
	c.Rule("ABS6z", "LIMIT 0 emits nothing (pre-loop guard or test-first loop)")
	c.Rule("MIR6", "Limit vs OrderSensitiveTransform selection agrees at all sites")
	c.Rule("ERR4L", "Limit swallows only its own sentinel")
	c.Rule("ORD5L", "ordered emitters use Ascend; DeleteMax only under noRetractionsPossible")
	c.Rule("ABS4", "ORDER BY comparators honour direction multipliers and tie-break on values")

	sites := []limitSite{
		{"execution/nodes", "(*Limit).Run", "value:produce", "error"},
		{"execution/nodes", "produceOrderByItems", "value:produce", "false"},
		{"outputs/batch", "(*OutputPrinter).Run", "outputs/batch.Format.Write", "false"},
	}
	for _, s := range sites {
		fn := p.Func(s.rel, s.fn)
		key := s.rel + "." + s.fn
		if fn == nil {
			c.Unknown("ABS6", key, 0, "anchor not found")
			continue
		}
		c.SawFunc(key)
		info := fn.Info()
		// literals that emit and mention a limit
		var lits []*ast.FuncLit
		derivedFromLimit := limitDerivedVars(fn)
		// the callbacks handed to a source: literals in place, or made by a factory of the package (its parameters
		// then stand for the arguments: `next` for produce, a bound for the limit)
		candidates := findFuncLits(fn.Decl.Body)
		owner := map[*ast.FuncLit]*core.FuncRef{}
		// … and the literals of the helpers the function hands the emission to (a printTable method, say)
		for _, h := range helperClosure(p, fn)[1:] {
			for _, fl := range findFuncLits(h.Decl.Body) {
				candidates = append(candidates, fl)
				owner[fl] = h
			}
		}
		forced := map[*ast.FuncLit]bool{}
		for _, rc := range nodeRunCalls(p, fn) {
			if rc.Produce != nil && len(getLitBinds(rc.Produce)) > 0 {
				candidates = append(candidates, rc.Produce)
				// a callback that is a method value of a state object: what it emits through and compares with are
				// fields of that object — it is a candidate as such, the interpretation decides
				if s.emit == "value:produce" {
					if _, isSel := core.Unparen(rc.Call.Args[1]).(*ast.SelectorExpr); isSel {
						forced[rc.Produce] = true
					}
				}
			}
		}
		for _, fl := range candidates {
			fl := fl
			emits, mentionsLimit, nested := false, false, false
			ast.Inspect(fl.Body, func(n ast.Node) bool {
				if inner, ok := n.(*ast.FuncLit); ok && inner != fl {
					nested = nested || true
					return false
				}
				if call, ok := n.(*ast.CallExpr); ok {
					cn := p.CalleeName(info, call)
					if id, isId := core.Unparen(call.Fun).(*ast.Ident); isId && strings.HasPrefix(cn, "value:") {
						if a := litParamAlias(fl, info.Uses[id]); a != "" {
							cn = "value:" + a
						}
					}
					if cn == s.emit {
						emits = true
					}
				}
				if id, ok := n.(*ast.Ident); ok {
					name := id.Name
					if a := litParamAlias(fl, info.Uses[id]); a != "" {
						name = a
					}
					if strings.Contains(strings.ToLower(name), "limit") || derivedFromLimit[name] {
						mentionsLimit = true
					}
				}
				return true
			})
			if (emits && mentionsLimit) || forced[fl] {
				lits = append(lits, fl)
			}
		}
		if len(lits) == 0 {
			c.Unknown("ABS6", key, fn.Decl.Pos(), "no function literal that emits rows under a limit was found")
			continue
		}
		for li, lit := range lits {
			lkey := key
			if len(lits) > 1 {
				lkey = fmt.Sprintf("%s/loop%d", key, li+1)
			}
			host := fn
			if h := owner[lit]; h != nil {
				host = h
			}
			needINV, bad, npaths := checkLimitLiteral(c, p, host, lit, s, ids)
			if bad == "" && needINV {
				// test-after style: the invariant counter < limit must hold at first entry
				if ok, why := limitZeroGuard(c, p, fn, ids); !ok {
					bad = "the loop emits a row before testing the counter, which is only correct if `counter < limit` holds on entry; LIMIT 0 breaks that: " + why
					c.Bad("ABS6z", lkey, lit.Pos(), npaths, bad)
				} else {
					c.OK("ABS6z", lkey, lit.Pos(), npaths, "a guard returns before the source runs when the limit is 0")
				}
			} else if bad == "" {
				c.OK("ABS6z", lkey, lit.Pos(), npaths, "test-first loop: with counter = limit = 0 the first test stops the iteration")
			}
			if bad != "" && !strings.HasPrefix(bad, "the loop emits a row before testing") {
				c.Bad("ABS6", lkey, lit.Pos(), npaths, bad)
			} else if bad == "" || strings.HasPrefix(bad, "the loop emits a row before testing") {
				c.OK("ABS6", lkey, lit.Pos(), npaths, "every scenario: rows counted once, none at the limit")
			}
		}
	}
	c.Floor("ABS6", 3, "Limit.Run, produceOrderByItems, the table printer's loop (live updates and the final table share it)")
	c.Rule("LIMNEG", "every limit site rejects a negative limit")
	checkNegativeLimit(c, ids)
	checkSelection(c)
	checkLimitSentinel(c)
	checkOrderedEmitters(c)
	checkOrderByLess(c)
}

// checkLimitLiteral interprets one emitting literal under all scenarios.
func checkLimitLiteral(c *core.Ctx, p *core.Program, fn *core.FuncRef, lit *ast.FuncLit, s limitSite, ids map[string]int64) (needINV bool, bad string, npaths int) {
	var scenarios []string
	for _, a := range []string{"", "N", "F", "NN", "NF", "NNN", "NNF"} {
		scenarios = append(scenarios, a)
	}
	// which operand of a comparison is the limit: its text names the limit, or it is a variable of the enclosing
	// function that (through up to three single assignments) was computed from something that does
	limitVars := limitDerivedVars(fn)
	// an operand names the limit when one of its identifiers is `limit`, is built from that word (limitValue,
	// maxLimit — not `limited`), or is a variable derived from the limit
	isLimit := func(x string) bool {
		for _, tok := range identRE.FindAllString(x, -1) {
			lt := strings.ToLower(tok)
			switch {
			case lt == "limit", limitVars[tok]:
				return true
			case strings.HasSuffix(tok, "Limit"):
				return true
			case strings.HasPrefix(lt, "limit") && len(tok) > 5 && (tok[5] >= 'A' && tok[5] <= 'Z' || tok[5] == '_' || tok[5] >= '0' && tok[5] <= '9'):
				return true
			}
		}
		return false
	}
	for _, sc := range scenarios {
		sc := sc
		in := newInterp(p, fn)
		in.MaxPaths = 2000
		type pathState struct{ used int }
		used := map[*absint.State]int{}
		_ = used
		// the scenario position is kept in the event log (count of TEST events so far)
		in.Hooks.Cond = func(st *absint.State, atom string) (bool, bool) {
			for _, e := range st.Events {
				if e.Name == "RUNAWAY" {
					return false, true
				}
			}
			inner := strings.TrimSuffix(strings.TrimPrefix(atom, "("), ")")
			var a, b, op string
			for _, o := range []string{" == ", " <= ", " < "} {
				if i := strings.Index(inner, o); i > 0 {
					a, b, op = inner[:i], inner[i+len(o):], o
					break
				}
			}
			if op == "" {
				return false, false
			}
			// limit present?
			if (a == "nil" && isLimit(b)) || (b == "nil" && isLimit(a)) {
				return false, true // the limit is set
			}
			if isLimit(a) == isLimit(b) {
				return false, false
			}
			// a remaining-count compared with a constant: only "none left" (0) is the limit test
			for _, side := range []string{a, b} {
				if !isLimit(side) {
					if k, isConst := constantInt(side); isConst && k != 0 {
						return false, false
					}
				}
			}
			ntests := 0
			for _, e := range st.Events {
				if strings.HasPrefix(e.Name, "TEST") {
					ntests++
				}
			}
			full := true
			if ntests < len(sc) {
				full = sc[ntests] == 'F'
			}
			st.Emit(fmt.Sprintf("TEST full=%v %s", full, atom), 0)
			counterLeft := !isLimit(a)
			switch op {
			case " == ":
				return full, true
			case " < ":
				if counterLeft { // c < L
					return !full, true
				}
				return false, true // L < c never holds while the invariant c <= L does
			case " <= ":
				if counterLeft { // c <= L
					return true, true
				}
				return full, true // L <= c
			}
			return false, false
		}
		in.Hooks.Store = func(st *absint.State, obj types.Object, v absint.Val) {
			// counting down from the limit (`remaining--` with remaining := limit) counts a row just as counting up does
			countsDown := limitVars[obj.Name()] && (v.Canon() == "("+obj.Name()+" - 1)")
			if m := incRe.FindStringSubmatch(v.Canon()); (m != nil && m[1] == obj.Name()) || countsDown {
				st.Emit("INC "+obj.Name(), 0)
				// two increments without a test in between: the verdict is already determined;
				// stop exploring (answer every further undecided condition with false)
				n := 0
				for i := len(st.Events) - 1; i >= 0; i-- {
					if strings.HasPrefix(st.Events[i].Name, "TEST") {
						break
					}
					if strings.HasPrefix(st.Events[i].Name, "INC") {
						n++
					}
				}
				if n >= 2 {
					st.Emit("RUNAWAY", 0)
				}
			}
		}
		// a counter kept in a field of a state object
		in.Hooks.FieldStore = func(st *absint.State, base absint.Val, field string, old, v absint.Val) {
			if old == nil || v == nil {
				return
			}
			if v.Canon() == "("+old.Canon()+" + 1)" || v.Canon() == "(1 + "+old.Canon()+")" {
				st.Emit("INC "+field, 0)
				n := 0
				for i := len(st.Events) - 1; i >= 0; i-- {
					if strings.HasPrefix(st.Events[i].Name, "TEST") {
						break
					}
					if strings.HasPrefix(st.Events[i].Name, "INC") {
						n++
					}
				}
				if n >= 2 {
					st.Emit("RUNAWAY", 0)
				}
			}
		}
		in.Hooks.Call = chainCall(func(st *absint.State, call *ast.CallExpr, callee string, recv absint.Val, args []absint.Val) (absint.Val, bool) {
			if callee == s.emit {
				st.Emit("PRODUCE", call.Pos())
				if s.emit == "value:produce" {
					return absint.Nil{}, true // a failing produce is C06's business
				}
				return absint.S("void"), true
			}
			return nil, false
		}, ctorHook(ids), errorfHook)
		in.Hooks.Assert = assertOK
		outs, err := runLit(in, lit, nil, "")
		if err != nil {
			return false, "UNDECIDED: " + err.Error(), npaths
		}
		for _, o := range outs {
			npaths++
			// permit: a test found the current counter below the limit and no row has used that yet
			permit, full, tested, bal, nProd, nInc := false, false, false, 0, 0, 0
			lastIncTested := true
			for _, e := range o.Events {
				switch {
				case strings.HasPrefix(e.Name, "TEST"):
					tested = true
					full = strings.Contains(e.Name, "full=true")
					permit = !full
					lastIncTested = true
				case strings.HasPrefix(e.Name, "INC"):
					nInc++
					bal++
					lastIncTested = false
				case e.Name == "PRODUCE":
					nProd++
					bal--
					if tested && full {
						return needINV, fmt.Sprintf("scenario %q: a row is emitted although the test just found the counter at the limit: %s", sc, o.String()), npaths
					}
					if !permit {
						if nProd == 1 && !tested {
							needINV = true
						} else {
							return needINV, fmt.Sprintf("scenario %q: a second row is emitted on the strength of one counter test (rows beyond the limit can be emitted; duplicates are not counted individually): %s", sc, o.String()), npaths
						}
					}
					permit = false
				}
				if bal < -1 || bal > 1 {
					return needINV, fmt.Sprintf("scenario %q: emissions and counter increments do not alternate — a row is emitted without being counted, or counted without being emitted: %s", sc, o.String()), npaths
				}
			}
			if o.Kind == "loop" {
				continue
			}
			if bal != 0 {
				return needINV, fmt.Sprintf("scenario %q: the path ends with %d emitted rows and %d increments of the counter: %s", sc, nProd, nInc, o.String()), npaths
			}
			if needINV && !lastIncTested {
				return needINV, fmt.Sprintf("scenario %q: after counting a row the counter is not compared with the limit, so `counter < limit` is not re-established for the next row: %s", sc, o.String()), npaths
			}
			// reaching the limit must stop the iteration
			if tested && full && o.Kind == "return" && len(o.Values) == 1 {
				stopped := (s.stop == "false" && absint.IsFalse(o.Values[0])) || (s.stop == "error" && isNonNilErr(o.Values[0]))
				if !stopped {
					return needINV, fmt.Sprintf("scenario %q: the counter reached the limit but the iteration is not stopped: %s", sc, o.String()), npaths
				}
			}
		}
	}
	return needINV, "", npaths
}

// limitZeroGuard: interpreting the whole function with limit == 0, the source is never run.
func limitZeroGuard(c *core.Ctx, p *core.Program, fn *core.FuncRef, ids map[string]int64) (bool, string) {
	in := newInterp(p, fn)
	ranSource := false
	in.Hooks.Call = chainCall(func(st *absint.State, call *ast.CallExpr, callee string, recv absint.Val, args []absint.Val) (absint.Val, bool) {
		switch callee {
		case "execution.Expression.Evaluate":
			return absint.Tuple{Elems: []absint.Val{mkValue(st, ids, "TypeIDInt", "Int", absint.Int(0)), absint.Nil{}}}, true
		case "execution.Node.Run":
			ranSource = true
			st.Emit("SOURCE-RUN", call.Pos())
			return absint.Nil{}, true
		}
		return nil, false
	}, ctorHook(ids), errorfHook)
	outs, err := runDecl(in, fn, nil, "")
	if err != nil {
		return false, "cannot interpret " + p.FName(fn) + ": " + err.Error()
	}
	if ranSource {
		return false, "with the limit evaluating to 0 the source is still run and its first row is emitted (" + fmt.Sprint(len(outs)) + " paths)"
	}
	for _, o := range outs {
		if o.Kind != "return" || len(o.Values) != 1 || isNonNilErr(o.Values[0]) {
			return false, "with limit 0: " + o.String()
		}
	}
	return true, ""
}

// checkNegativeLimit (LIMNEG): every node that evaluates a limit rejects a negative one before running its source —
// siblings must agree, otherwise LIMIT -1 is an error in one output mode or nesting and "all rows" in another.
func checkNegativeLimit(c *core.Ctx, ids map[string]int64) {
	p := c.Prog
	n := 0
	for _, name := range []string{"(*Limit).Run", "(*OrderSensitiveTransform).Run"} {
		fn := p.Func("execution/nodes", name)
		key := "execution/nodes." + name
		if fn == nil {
			c.Unknown("LIMNEG", key, 0, "anchor not found")
			continue
		}
		n++
		c.SawFunc(key)
		in := newInterp(p, fn)
		ranSource := false
		in.Hooks.Cond = func(st *absint.State, atom string) (bool, bool) {
			if strings.HasSuffix(atom, ".limit == nil)") || strings.HasPrefix(atom, "(nil == ") && strings.HasSuffix(atom, ".limit)") {
				return false, true
			}
			if strings.HasSuffix(atom, ".limit != nil)") || strings.HasPrefix(atom, "(nil != ") && strings.HasSuffix(atom, ".limit)") {
				return true, true
			}
			return false, false
		}
		in.Hooks.Call = chainCall(func(st *absint.State, call *ast.CallExpr, callee string, recv absint.Val, args []absint.Val) (absint.Val, bool) {
			switch callee {
			case "execution.Expression.Evaluate":
				return absint.Tuple{Elems: []absint.Val{mkValue(st, ids, "TypeIDInt", "Int", absint.Int(-1)), absint.Nil{}}}, true
			case "execution.Node.Run":
				ranSource = true
				return absint.Nil{}, true
			}
			return nil, false
		}, ctorHook(ids), errorfHook)
		outs, err := runDecl(in, fn, nil, "")
		if err != nil {
			c.Unknown("LIMNEG", key, fn.Decl.Pos(), err.Error())
			continue
		}
		bad := ""
		if ranSource {
			bad = "with the limit evaluating to -1 the source is run: the counter never equals the limit, so every row is returned, while the sibling limit sites report \"limit must be positive\""
		}
		for _, o := range outs {
			if bad == "" && (o.Kind != "return" || len(o.Values) != 1 || !isNonNilErr(o.Values[0])) {
				bad = "with a negative limit the node must fail; it " + o.String()
			}
		}
		c.Decide(bad == "" && len(outs) > 0, "LIMNEG", key, fn.Decl.Pos(), len(outs), "a negative limit is an error before the source runs", bad)
	}
	c.Floor("LIMNEG", 2, "Limit.Run and OrderSensitiveTransform.Run")
	_ = n
}

// limitDerivedVars: local variables of fn whose (single) defining expression mentions the limit, transitively.
func limitDerivedVars(fn *core.FuncRef) map[string]bool {
	out := map[string]bool{}
	for round := 0; round < 3; round++ {
		ast.Inspect(fn.Decl.Body, func(n ast.Node) bool {
			as, ok := n.(*ast.AssignStmt)
			if !ok || as.Tok != token.DEFINE {
				return true
			}
			rhs := ""
			for _, r := range as.Rhs {
				rhs += " " + core.ExprStr(r)
			}
			derived := false
			for _, tok := range identRE.FindAllString(rhs, -1) {
				lt := strings.ToLower(tok)
				if lt == "limit" || strings.HasSuffix(tok, "Limit") || (strings.HasPrefix(lt, "limit") && len(tok) > 5 && tok[5] >= 'A' && tok[5] <= 'Z') {
					derived = true
				}
			}
			for v := range out {
				if regexp.MustCompile(`(^|[^A-Za-z0-9_])` + regexp.QuoteMeta(v) + `($|[^A-Za-z0-9_])`).MatchString(rhs) {
					derived = true
				}
			}
			if !derived {
				return true
			}
			for _, l := range as.Lhs {
				if id, ok := l.(*ast.Ident); ok && id.Name != "_" && id.Name != "err" {
					// a variable that holds the limit's value (a number, an octosql value, a pointer to a number) —
					// not an object that merely keeps it among other state
					if o := fn.Info().Defs[id]; o != nil {
						t := o.Type()
						if pt, ok := t.Underlying().(*types.Pointer); ok {
							t = pt.Elem()
						}
						_, basic := t.Underlying().(*types.Basic)
						if !basic && !strings.HasSuffix(t.String(), "octosql.Value") {
							continue
						}
					}
					out[id.Name] = true
				}
			}
			return true
		})
	}
	return out
}
