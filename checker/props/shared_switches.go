package props

import (
	"fmt"
	"go/ast"
	"go/types"
	"strings"

	"octoverif/core"
	"octoverif/engine/unionfield"
)

// concreteValueMissingOK: a concrete octosql.Value never has TypeID Union or Any.
func missingAllowed(es *unionfield.EnumSwitch, tag string, valueLevel bool) []string {
	var out []string
	for _, m := range es.Missing {
		if es.Enum.Named.Obj().Name() == "TypeID" && (m == "TypeIDAny") {
			continue // Any only appears in function signatures, never in a value or a concrete plan type
		}
		if es.Enum.Named.Obj().Name() == "TypeID" && m == "TypeIDUnion" && valueLevel {
			continue // a concrete value never carries TypeIDUnion (only types do)
		}
		out = append(out, m)
	}
	return out
}

// valueLevelTag: the switch inspects the TypeID of a value (octosql.Value or its protobuf mirror), not of a type.
func valueLevelTag(info *types.Info, tag ast.Expr) bool {
	found := false
	ast.Inspect(tag, func(n ast.Node) bool {
		sel, ok := n.(*ast.SelectorExpr)
		if !ok || (sel.Sel.Name != "TypeID" && sel.Sel.Name != "TypeId") {
			return true
		}
		if tv, ok := info.Types[sel.X]; ok {
			t := tv.Type
			if pt, ok := t.(*types.Pointer); ok {
				t = pt.Elem()
			}
			if n, ok := t.(*types.Named); ok && n.Obj().Name() == "Value" {
				found = true
			}
		}
		return true
	})
	return found
}

// checkEnumSwitches runs PAN5 and UNI1 over the functions of the given packages
// (optionally restricted by a function-name filter).
// uni1IndexedOnly restricts UNI1 reports to wrong-arm payloads that are indexed (a crash), used by C07.
var uni1IndexedOnly = false

func checkEnumSwitches(c *core.Ctx, pkgs []string, filter func(name string) bool) (nSwitch, nRegion int) {
	p := c.Prog
	unions := unionfield.Unions(p)
	for _, fn := range p.AllFuncs(pkgs...) {
		name := p.FName(fn)
		if filter != nil && !filter(name) {
			continue
		}
		sws := unionfield.Switches(fn)
		ord := map[string]int{}
		for _, es := range sws {
			tag := core.ExprStr(es.Tag)
			ord[tag]++
			key := fmt.Sprintf("%s/switch %s", name, tag)
			if ord[tag] > 1 {
				key += fmt.Sprintf("#%d", ord[tag])
			}
			if !es.Asserts {
				continue // selector with a harmless default or no claim of exhaustiveness
			}
			nSwitch++
			c.SawFunc(name)
			miss := missingAllowed(es, tag, valueLevelTag(fn.Info(), es.Tag))
			c.Decide(len(miss) == 0, "PAN5", key, es.Stmt.Pos(), len(es.Enum.Consts),
				fmt.Sprintf("lists all %d constants of %s", len(es.Enum.Consts), es.Enum.Named.Obj().Name()),
				fmt.Sprintf("%s, so every %s must have a case; missing: %s — a plan/value of that kind reaches the panic", es.AssertsWhy, es.Enum.Named.Obj().Name(), strings.Join(miss, ", ")))
		}
		vs, stats := unionfield.ArmViolations(p, fn, unions)
		if uni1IndexedOnly {
			var kept []unionfield.ArmViolation
			for _, v := range vs {
				if v.Indexed {
					kept = append(kept, v)
				} else {
					c.Note("%s: `%s` touches %s.%s (arm payload is .%s) without indexing it — no crash; reported under the property it affects", name, v.Context, v.Path, v.Field, v.Want)
				}
			}
			vs = kept
		}
		if stats.Regions > 0 {
			nRegion += stats.Regions
			c.SawFunc(name)
			if len(vs) == 0 {
				c.OK("UNI1", name, fn.Decl.Pos(), stats.Accesses, fmt.Sprintf("%d regions, %d payload accesses agree with their arm", stats.Regions, stats.Accesses))
			}
			seen := map[string]bool{}
			for _, v := range vs {
				k := fmt.Sprintf("%s/%s reads .%s", name, v.Context, v.Field)
				if seen[k] {
					continue
				}
				seen[k] = true
				c.Bad("UNI1", k, v.Pos, stats.Accesses, fmt.Sprintf("inside `%s` the code touches %s.%s, but that arm's payload is %s.%s — the field is empty/nil for such a value", v.Context, v.Path, v.Field, v.Path, v.Want))
			}
		}
	}
	return
}

func checkPlanSwitches(c *core.Ctx) {
	ns, nr := checkEnumSwitches(c, []string{"physical"}, nil)
	if ns < 4 || nr < 20 {
		c.Unknown("PAN5", "<physical switches>", 0, fmt.Sprintf("only %d asserting switches / %d arm regions found in package physical", ns, nr))
	}
}
