package props

import (
	"fmt"
	"go/ast"
	"go/constant"
	"go/parser"
	"go/token"
	"path/filepath"
	"sort"
	"strings"

	"octoverif/core"
	"octoverif/engine/absint"
)

// C25 — CSV and JSON output faithfully encode results.
//
//	JARM   ValueToJson interpreted per value TypeID (and, for floats, per class finite / NaN / ±Inf; for booleans per
//	       value): each kind is rendered by the JSON constructor of the matching JSON kind from the payload field of that
//	       kind; non-finite floats never reach the number constructor; lists/structs/tuples place element i at position i
//	       (struct: under the i-th field name) rendered with the i-th element type; a union delegates to the alternative
//	       with the value's TypeID.
//	JROW   JSONFormatter.Write: column i is set under field i's name from values[i]; marshal → newline → write → reset
//	       buffer → reset arena, in this order.
//	CARM   FormatCSVValue per TypeID: NULL writes nothing; Int/Float/Boolean via strconv with exact (round-trippable)
//	       parameters from the matching payload; strings verbatim.
//	CROW   CSVFormatter.Write: cell i from values[i], the builder is reset between cells, the csv writer's error is
//	       returned; the header lists the field names in order; Close flushes.
//	PAN5   the TypeID switches in outputs/formats list every value-level TypeID.
func init() {
	register(&Check{ID: "C25", Run: runC25,
		Explanation: "JARM: ValueToJson is interpreted per value TypeID (floats: finite/NaN/+Inf/−Inf; booleans: true/false): the JSON constructor of the matching kind is applied to the payload of that kind, non-finite floats never reach the number constructor, containers place element i at position i (structs under field i's name) rendered with element type i, unions delegate to the alternative with the value's TypeID. " +
			"JROW: one object member per schema field from values[i]; marshal, newline, write, buffer reset, arena reset in this order. " +
			"CARM: FormatCSVValue per TypeID writes nothing for NULL, strconv renderings with exact parameters for Int/Float/Boolean from the matching payload, strings verbatim. " +
			"CROW: cell i from values[i] with the builder reset between cells, the csv writer's error returned, header = field names in order, Close flushes. PAN5: every value-level TypeID has an arm.",
		NotDecided: []string{
			"byte-for-byte correctness of encoding/csv's quoting and of fastjson's escaping of the strings JSTR does not flag (library code)",
		},
		Assumptions: []string{"fastjson.Arena constructors and strconv render what they are given faithfully"},
	})
}

func runC25(c *core.Ctx) {
	c.Rule("JARM", "json: each value kind rendered by the matching constructor from the matching payload")
	c.Rule("JROW", "json: one member per field, marshal/newline/write/reset order")
	c.Rule("CARM", "csv: each value kind rendered exactly from the matching payload")
	c.Rule("CROW", "csv: cells, header, error and flush")
	c.Rule("PAN5", "TypeID switches are exhaustive")
	c.Rule("JSTR", "strings are marshalled by a JSON escaper")
	c.Rule("NAMES", "output column names stay distinct")
	checkJSONValueArms(c)
	checkJSONRow(c)
	checkJSONStringEscaper(c)
	checkCSVValueArms(c)
	checkCSVRow(c)
	checkOutputNames(c)
	n, _ := checkEnumSwitches(c, []string{"outputs/formats"}, func(name string) bool {
		return strings.Contains(name, "ValueToJson") || strings.Contains(name, "FormatCSVValue")
	})
	c.Floor("PAN5", 2, "ValueToJson and FormatCSVValue switch over the value's TypeID")
	_ = n
}

var valueLevelIDs = []string{"TypeIDNull", "TypeIDInt", "TypeIDFloat", "TypeIDBoolean", "TypeIDString", "TypeIDTime", "TypeIDDuration", "TypeIDList", "TypeIDStruct", "TypeIDTuple"}

func checkJSONValueArms(c *core.Ctx) {
	p := c.Prog
	fn := p.Func("outputs/formats", "ValueToJson")
	key := "outputs/formats.ValueToJson"
	if fn == nil {
		c.Unknown("JARM", key, 0, "anchor not found")
		return
	}
	c.SawFunc(key)
	checkTimeLayout(c, "JARM", key, fn)
	ids := typeIDs(p)
	var tname, vname string
	for _, f := range fn.Decl.Type.Params.List {
		for _, n := range f.Names {
			switch core.ExprStr(f.Type) {
			case "octosql.Type":
				tname = n.Name
			case "octosql.Value":
				vname = n.Name
			}
		}
	}
	if tname == "" || vname == "" {
		c.Unknown("JARM", key, fn.Decl.Pos(), "expected parameters (…, octosql.Type, octosql.Value)")
		return
	}
	type scen struct {
		id, sub string
		union   bool
	}
	var scens []scen
	for _, id := range valueLevelIDs {
		switch id {
		case "TypeIDFloat":
			for _, s := range []string{"finite", "NaN", "+Inf", "-Inf"} {
				scens = append(scens, scen{id, s, false})
			}
		case "TypeIDBoolean":
			scens = append(scens, scen{id, "true", false}, scen{id, "false", false})
		case "TypeIDStruct":
			scens = append(scens, scen{id, "named field", false}, scen{id, "field without a static name", false})
		case "TypeIDList", "TypeIDTuple":
			scens = append(scens, scen{id, "", false})
		default:
			scens = append(scens, scen{id, "", false})
		}
	}
	scens = append(scens, scen{"TypeIDInt", "union: matching alternative", true}, scen{"TypeIDString", "union: no alternative", true})
	for _, sc := range scens {
		sc := sc
		in := newInterp(p, fn)
		in.MaxPaths = 3000
		in.Hooks.Field = func(st *absint.State, base absint.Val, sel string) (absint.Val, bool) {
			switch {
			case sel == "TypeID" && base.Canon() == vname:
				return absint.Int(ids[sc.id]), true
			case sel == "TypeID" && base.Canon() == tname:
				if sc.union {
					return absint.Int(ids["TypeIDUnion"]), true
				}
				return absint.Int(ids[sc.id]), true
			case sel == "TypeID" && strings.HasPrefix(base.Canon(), tname+".Union.Alternatives["):
				if sc.sub == "union: matching alternative" && st.IterNow == "MATCH" {
					return absint.Int(ids[sc.id]), true
				}
				return absint.Int(ids["TypeIDDuration"]), true
			case sel == "Boolean" && base.Canon() == vname && sc.id == "TypeIDBoolean":
				return absint.Bool(sc.sub == "true"), true
			}
			return nil, false
		}
		in.Hooks.Cond = func(st *absint.State, atom string) (bool, bool) {
			if sc.id == "TypeIDStruct" && strings.Contains(atom, ".Struct.Fields[") && strings.Contains(atom, "].Name") && strings.Contains(atom, `""`) {
				return sc.sub == "field without a static name", true
			}
			return false, false
		}
		in.Hooks.Loop = func(st *absint.State, loop ast.Stmt) *absint.LoopSpec {
			if sc.union {
				if sc.sub == "union: matching alternative" {
					return &absint.LoopSpec{Cases: []string{"OTHER", "MATCH"}, MaxIter: 2, RefStep: func(ref, cs string) string { return "" }}
				}
				return &absint.LoopSpec{Cases: []string{"OTHER"}, MaxIter: 2, RefStep: func(ref, cs string) string { return "" }}
			}
			return &absint.LoopSpec{Cases: []string{"ELEM"}, MaxIter: 1, MinIter: 1, RefStep: func(ref, cs string) string { return "" }}
		}
		in.Hooks.Call = func(st *absint.State, call *ast.CallExpr, callee string, recv absint.Val, args []absint.Val) (absint.Val, bool) {
			short := callee[strings.LastIndex(callee, ".")+1:]
			switch {
			case callee == "math.IsNaN":
				return absint.Bool(sc.sub == "NaN"), true
			case callee == "math.IsInf":
				sign := int64(0)
				if len(args) == 2 {
					if v, ok := absint.AsInt(args[1]); ok {
						sign = v
					}
				}
				return absint.Bool((sc.sub == "+Inf" && sign >= 0) || (sc.sub == "-Inf" && sign <= 0)), true
			case strings.Contains(callee, "fastjson.(*Arena).New"):
				var as []string
				for _, a := range args {
					as = append(as, a.Canon())
				}
				st.Emit("NEW "+short, call.Pos(), args...)
				return st.NewObj("json:"+short, map[string]absint.Val{"kind": absint.S(short), "arg": absint.S(strings.Join(as, ","))}), true
			case strings.HasSuffix(callee, "fastjson.(*Value).SetArrayItem"), strings.HasSuffix(callee, "fastjson.(*Value).Set"):
				st.Emit("SET", call.Pos(), args...)
				return absint.Nil{}, true
			case callee == "outputs/formats.ValueToJson":
				st.Emit("REC", call.Pos(), args...)
				return absint.S("REC(" + args[1].Canon() + "," + args[2].Canon() + ")"), true
			case callee == "log.Printf":
				return absint.Nil{}, true
			case callee == "strconv.FormatFloat", callee == "time.Time.Format", callee == "time.Duration.String", callee == "fmt.Sprint", callee == "fmt.Sprintf":
				var as []string
				for _, a := range args {
					as = append(as, a.Canon())
				}
				r := ""
				if recv != nil {
					r = recv.Canon()
				}
				return absint.S(short + "(" + r + ";" + strings.Join(as, ",") + ")"), true
			}
			return nil, false
		}
		outs, err := runDecl(in, fn, nil, "")
		ckey := key + "/" + strings.TrimPrefix(sc.id, "TypeID")
		if sc.sub != "" {
			ckey += "/" + sc.sub
		}
		if err != nil {
			c.Unknown("JARM", ckey, fn.Decl.Pos(), err.Error())
			continue
		}
		bad := ""
		nRet := 0
		for _, o := range outs {
			if o.Kind == "panic" {
				bad = "the formatter panics for this kind of value"
				continue
			}
			if o.Kind != "return" || len(o.Values) != 1 {
				continue
			}
			nRet++
			ret := o.Values[0]
			kind, arg := "", ""
			if k := o.Field(ret, "kind"); k != nil {
				kind = k.Canon()
				arg = o.Field(ret, "arg").Canon()
			}
			var sets [][]string
			for _, e := range o.Events {
				if e.Name == "SET" {
					var a []string
					for _, x := range e.Args {
						a = append(a, x.Canon())
					}
					sets = append(sets, a)
				}
			}
			V := vname
			switch {
			case sc.union && sc.sub == "union: matching alternative":
				matched := false
				for _, t := range o.Trace {
					if t == "MATCH" {
						matched = true
					}
				}
				if matched {
					if !strings.HasPrefix(ret.Canon(), "REC("+tname+".Union.Alternatives[") || !strings.HasSuffix(ret.Canon(), ","+V+")") {
						bad = "a union must be rendered through the alternative whose TypeID equals the value's: " + o.Show(ret)
					}
				} else if kind != "NewNull" {
					bad = "a value matching no alternative must render as null, renders as " + o.Show(ret)
				}
			case sc.union:
				if kind != "NewNull" {
					bad = "a value matching no alternative must render as null, renders as " + o.Show(ret)
				}
			case sc.id == "TypeIDNull":
				if kind != "NewNull" {
					bad = "NULL must become null; it becomes " + kind + "(" + arg + ")"
				}
			case sc.id == "TypeIDInt":
				if kind != "NewNumberInt" || (arg != "int("+V+".Int)" && arg != V+".Int") {
					bad = fmt.Sprintf("an Int must become the number %s.Int; it becomes %s(%s)", V, kind, arg)
				}
			case sc.id == "TypeIDFloat" && sc.sub == "finite":
				if kind != "NewNumberFloat64" || arg != V+".Float" {
					bad = fmt.Sprintf("a finite Float must become the number %s.Float; it becomes %s(%s)", V, kind, arg)
				}
			case sc.id == "TypeIDFloat":
				if strings.HasPrefix(kind, "NewNumber") {
					bad = fmt.Sprintf("a %s float is written with the number constructor: the line is not valid JSON (%s)", sc.sub, kind)
				} else if kind == "NewString" && !strings.Contains(arg, V+".Float") {
					bad = fmt.Sprintf("a %s float must keep its value in the rendering; it becomes %s(%s)", sc.sub, kind, arg)
				}
			case sc.id == "TypeIDBoolean":
				want := map[string]string{"true": "NewTrue", "false": "NewFalse"}[sc.sub]
				if kind != want {
					bad = fmt.Sprintf("boolean %s must become %s; it becomes %s", sc.sub, want, kind)
				}
			case sc.id == "TypeIDString":
				if kind != "NewString" || arg != V+".Str" {
					bad = fmt.Sprintf("a String must become the string %s.Str unchanged; it becomes %s(%s)", V, kind, arg)
				}
			case sc.id == "TypeIDTime":
				if kind != "NewString" || !strings.Contains(arg, V+".Time") {
					bad = fmt.Sprintf("a Time must become a string rendering of %s.Time; it becomes %s(%s)", V, kind, arg)
				}
			case sc.id == "TypeIDDuration":
				if kind != "NewString" || !strings.Contains(arg, V+".Duration") {
					bad = fmt.Sprintf("a Duration must become a string rendering of %s.Duration; it becomes %s(%s)", V, kind, arg)
				}
			case sc.id == "TypeIDList":
				if kind != "NewArray" || len(sets) != 1 || len(sets[0]) != 2 {
					bad = fmt.Sprintf("a List must become an array with one item per element; got %s with %d item(s)", kind, len(sets))
				} else if idx, item := sets[0][0], sets[0][1]; !strings.HasSuffix(item, ","+V+".List["+idx+"])") || !strings.Contains(item, tname+".List.Element") {
					bad = fmt.Sprintf("array item %s must be element %s of the list rendered with the list's element type; it is %s", idx, idx, item)
				}
			case sc.id == "TypeIDTuple":
				if kind != "NewArray" || len(sets) != 1 || len(sets[0]) != 2 {
					bad = fmt.Sprintf("a Tuple must become an array with one item per element; got %s with %d item(s)", kind, len(sets))
				} else if idx, item := sets[0][0], sets[0][1]; item != "REC("+tname+".Tuple.Elements["+idx+"],"+V+".Tuple["+idx+"])" {
					bad = fmt.Sprintf("array item %s must be tuple element %s rendered with the tuple's %s-th element type; it is %s", idx, idx, idx, item)
				}
			case sc.id == "TypeIDStruct":
				if kind != "NewObject" || len(sets) != 1 || len(sets[0]) != 2 {
					bad = fmt.Sprintf("a Struct must become an object with one member per field; got %s with %d member(s)", kind, len(sets))
				} else {
					name, item := sets[0][0], sets[0][1]
					i := strings.TrimSuffix(strings.TrimPrefix(name, tname+".Struct.Fields["), "].Name")
					fallback := false
					if strings.HasPrefix(name, "Sprintf(") && sc.sub == "field without a static name" {
						// a positional fallback for a field without a static name (value typed Any)
						if k := strings.LastIndex(name, ","); k > 0 {
							i = strings.TrimSuffix(name[k+1:], ")")
							fallback = true
						}
					}
					if (!strings.HasPrefix(name, tname+".Struct.Fields[") && !fallback) || item != "REC("+tname+".Struct.Fields["+i+"].Type,"+V+".Struct["+i+"])" {
						bad = fmt.Sprintf("member %s must hold struct field %s rendered with that field's type; it holds %s", name, i, item)
					}
				}
			}
		}
		if bad == "" && nRet == 0 {
			bad = "no returning path"
		}
		c.Decide(bad == "", "JARM", ckey, fn.Decl.Pos(), len(outs), "matching constructor and payload", bad)
	}
}

func checkJSONRow(c *core.Ctx) {
	p := c.Prog
	fn := p.Func("outputs/formats", "(*JSONFormatter).Write")
	key := "outputs/formats.(*JSONFormatter).Write"
	if fn == nil {
		c.Unknown("JROW", key, 0, "anchor not found")
		return
	}
	c.SawFunc(key)
	in := newInterp(p, fn)
	in.Hooks.Loop = func(st *absint.State, loop ast.Stmt) *absint.LoopSpec {
		return &absint.LoopSpec{Cases: []string{"FIELD"}, MaxIter: 1, MinIter: 1, RefStep: func(ref, cs string) string { return "" }}
	}
	in.Hooks.Call = func(st *absint.State, call *ast.CallExpr, callee string, recv absint.Val, args []absint.Val) (absint.Val, bool) {
		short := callee[strings.LastIndex(callee, ".")+1:]
		switch {
		case callee == "outputs/formats.ValueToJson":
			return absint.S("JSON(" + args[1].Canon() + "," + args[2].Canon() + ")"), true
		case strings.Contains(callee, "fastjson.(*Arena).NewObject"):
			return absint.NN("OBJ"), true
		case strings.HasSuffix(callee, "fastjson.(*Value).Set"):
			st.Emit("SET", call.Pos(), args...)
			return absint.Nil{}, true
		case strings.HasSuffix(callee, "fastjson.(*Value).MarshalTo"):
			st.Emit("MARSHAL", call.Pos(), recv)
			return absint.S("MARSHALLED"), true
		case strings.HasSuffix(callee, "fastjson.(*Arena).Reset"):
			st.Emit("ARENA-RESET", call.Pos())
			return absint.Nil{}, true
		case callee == "io.Writer.Write":
			st.Emit("WRITE", call.Pos(), args...)
			return absint.Tuple{Elems: []absint.Val{absint.S("n"), absint.Nil{}}}, true
		}
		_ = short
		return nil, false
	}
	outs, err := runDecl(in, fn, nil, "")
	if err != nil {
		c.Unknown("JROW", key, fn.Decl.Pos(), err.Error())
		return
	}
	bad := ""
	for _, o := range outs {
		if o.Kind != "return" {
			continue
		}
		var seq []string
		for _, e := range o.Events {
			switch e.Name {
			case "SET":
				seq = append(seq, "SET("+e.Args[0].Canon()+"="+e.Args[1].Canon()+")")
			case "MARSHAL", "ARENA-RESET":
				seq = append(seq, e.Name)
			case "WRITE":
				seq = append(seq, "WRITE("+e.Args[0].Canon()+")")
			}
		}
		got := strings.Join(seq, " ")
		// SET(t.fields[i].Name=JSON(t.fields[i].Type,values[i])) MARSHAL WRITE(append(MARSHALLED;'\n')) ARENA-RESET
		okSet := false
		for _, s := range seq {
			if strings.HasPrefix(s, "SET(") {
				i := strings.Index(s, ".fields[")
				j := strings.Index(s, "].Name=")
				if i > 0 && j > i {
					idx := s[i+len(".fields[") : j]
					if strings.Contains(s, ".fields["+idx+"].Type,") && strings.HasSuffix(s, "["+idx+"]))") {
						okSet = true
					}
				}
			}
		}
		order := func(a, b string) bool {
			ia, ib := -1, -1
			for k, s := range seq {
				if strings.HasPrefix(s, a) && ia < 0 {
					ia = k
				}
				if strings.HasPrefix(s, b) {
					ib = k
				}
			}
			return ia >= 0 && ib >= 0 && ia < ib
		}
		nl := false
		written := false
		bufField := ""
		for _, e := range o.Events {
			if e.Name == "WRITE" {
				written = true
			}
			// the buffer written is the marshalled object with a newline appended (stored before the write)
			if strings.HasPrefix(e.Name, "store ") && len(e.Args) == 1 && !written {
				field := strings.TrimPrefix(e.Name, "store ")
				v := e.Args[0].Canon()
				if v == "MARSHALLED" {
					bufField = field
				}
				if bufField != "" && field == bufField && strings.HasPrefix(v, "append("+bufField+";") && (strings.Contains(v, "[10]") || strings.Contains(v, `'\n'`)) {
					nl = true
				}
			}
			if e.Name == "WRITE" {
				w := e.Args[0].Canon()
				switch {
				case strings.HasPrefix(w, "append(MARSHALLED;") && (strings.Contains(w, "[10]") || strings.Contains(w, `'\n'`)):
					// the value written is the marshalled object with a newline appended
					nl = true
				case bufField == "" || w != bufField:
					nl = false
				}
			}
		}
		if !okSet {
			bad = "every column i must be set under field i's name from values[i], rendered with field i's type: " + got
		} else if !order("SET", "MARSHAL") || !order("MARSHAL", "WRITE") || !order("WRITE", "ARENA-RESET") {
			bad = "the row must be built, marshalled, written and only then the arena reset: " + got
		} else if !nl {
			bad = "each row must be written as the marshalled object followed by a newline: " + got
		}
		// the buffer is emptied for the next row
		if b, ok := o.Env["t"]; ok {
			_ = b
		}
	}
	// buffer reset: `t.buf = t.buf[:0]` after the write
	resetOK := false
	ast.Inspect(fn.Decl.Body, func(n ast.Node) bool {
		if as, ok := n.(*ast.AssignStmt); ok && len(as.Lhs) == 1 && len(as.Rhs) == 1 {
			l, r := core.ExprStr(as.Lhs[0]), core.ExprStr(as.Rhs[0])
			if r == l+"[:0]" {
				resetOK = true
			}
		}
		return true
	})
	if bad == "" && !resetOK {
		bad = "the line buffer must be emptied after each row (buf = buf[:0]), or every line repeats the previous ones"
	}
	if len(outs) == 0 {
		bad = "no outcome"
	}
	c.Decide(bad == "", "JROW", key, fn.Decl.Pos(), len(outs), "member per field; marshal → newline → write → resets", bad)
}

func checkCSVValueArms(c *core.Ctx) {
	p := c.Prog
	fn := p.Func("outputs/formats", "FormatCSVValue")
	key := "outputs/formats.FormatCSVValue"
	if fn == nil {
		c.Unknown("CARM", key, 0, "anchor not found")
		return
	}
	c.SawFunc(key)
	checkTimeLayout(c, "CARM", key, fn)
	ids := typeIDs(p)
	vname := ""
	for _, f := range fn.Decl.Type.Params.List {
		for _, n := range f.Names {
			if core.ExprStr(f.Type) == "octosql.Value" {
				vname = n.Name
			}
		}
	}
	if vname == "" {
		c.Unknown("CARM", key, fn.Decl.Pos(), "no octosql.Value parameter")
		return
	}
	V := vname
	for _, id := range valueLevelIDs {
		id := id
		in := newInterp(p, fn)
		in.Hooks.Field = func(st *absint.State, base absint.Val, sel string) (absint.Val, bool) {
			if sel == "TypeID" && base.Canon() == vname {
				return absint.Int(ids[id]), true
			}
			return nil, false
		}
		in.Hooks.Call = func(st *absint.State, call *ast.CallExpr, callee string, recv absint.Val, args []absint.Val) (absint.Val, bool) {
			short := callee[strings.LastIndex(callee, ".")+1:]
			var as []string
			for _, a := range args {
				as = append(as, a.Canon())
			}
			switch {
			case callee == "strings.(*Builder).WriteString":
				st.Emit("OUT", call.Pos(), args...)
				return absint.Tuple{Elems: []absint.Val{absint.S("n"), absint.Nil{}}}, true
			case strings.HasPrefix(callee, "strconv.Format"), callee == "fmt.Sprint", callee == "time.Time.Format", callee == "time.Duration.String", callee == "octosql.Value.String":
				r := ""
				if recv != nil {
					r = recv.Canon() + ";"
				}
				return absint.S(short + "(" + r + strings.Join(as, ",") + ")"), true
			}
			return nil, false
		}
		outs, err := runDecl(in, fn, nil, "")
		ckey := key + "/" + strings.TrimPrefix(id, "TypeID")
		if err != nil {
			c.Unknown("CARM", ckey, fn.Decl.Pos(), err.Error())
			continue
		}
		bad := ""
		for _, o := range outs {
			if o.Kind == "panic" {
				bad = "the formatter panics for this kind of value"
				continue
			}
			var outsS []string
			for _, e := range o.Events {
				if e.Name == "OUT" {
					outsS = append(outsS, e.Args[0].Canon())
				}
			}
			got := strings.Join(outsS, " + ")
			switch id {
			case "TypeIDNull":
				if got != "" {
					bad = "NULL must be an empty field; it writes " + got
				}
			case "TypeIDInt":
				if got != "FormatInt(int64("+V+".Int),10)" && got != "FormatInt("+V+".Int,10)" {
					bad = "an Int must be written in base 10 from " + V + ".Int; it writes " + got
				}
			case "TypeIDFloat":
				okF := false
				for _, f := range []string{"102", "103", "101"} { // 'f', 'g', 'e'
					if got == "FormatFloat("+V+".Float,"+f+",-1,64)" {
						okF = true
					}
				}
				if !okF {
					bad = "a Float must be written with the shortest exact representation (precision −1, 64 bits) of " + V + ".Float; it writes " + got
				}
			case "TypeIDBoolean":
				if got != "FormatBool("+V+".Boolean)" {
					bad = "a Boolean must be written from " + V + ".Boolean; it writes " + got
				}
			case "TypeIDString":
				if got != V+".Str" {
					bad = "a String must be written unchanged (" + V + ".Str); it writes " + got
				}
			case "TypeIDTime":
				if !strings.Contains(got, V+".Time") {
					bad = "a Time must be rendered from " + V + ".Time; it writes " + got
				}
			case "TypeIDDuration":
				if !strings.Contains(got, V+".Duration") {
					bad = "a Duration must be rendered from " + V + ".Duration; it writes " + got
				}
			default:
				if got == "" {
					bad = "a container value must not vanish from the csv field"
				}
			}
		}
		if len(outs) == 0 {
			bad = "no outcome"
		}
		c.Decide(bad == "", "CARM", ckey, fn.Decl.Pos(), len(outs), "exact rendering from the matching payload", bad)
	}
}

func checkCSVRow(c *core.Ctx) {
	p := c.Prog
	fn := p.Func("outputs/formats", "(*CSVFormatter).Write")
	key := "outputs/formats.(*CSVFormatter).Write"
	if fn == nil {
		c.Unknown("CROW", key, 0, "anchor not found")
		return
	}
	c.SawFunc(key)
	bad := ""
	total := 0
	for _, single := range []bool{false, true} {
		single := single
		in := newInterp(p, fn)
		in.Hooks.Loop = func(st *absint.State, loop ast.Stmt) *absint.LoopSpec {
			max := 2
			if single {
				max = 1
			}
			return &absint.LoopSpec{Cases: []string{"CELL"}, MaxIter: max, MinIter: 1, RefStep: func(ref, cs string) string { return "" }}
		}
		// scenario "single": the row is one empty field (a NULL or an empty string in a one-column result)
		in.Hooks.Cond = func(st *absint.State, atom string) (bool, bool) {
			if strings.HasPrefix(atom, "(1 == len(") {
				return single, true
			}
			if strings.Contains(atom, `"" ==`) || strings.Contains(atom, `== ""`) {
				return single, true
			}
			return false, false
		}
		in.Hooks.Call = func(st *absint.State, call *ast.CallExpr, callee string, recv absint.Val, args []absint.Val) (absint.Val, bool) {
			switch callee {
			case "outputs/formats.FormatCSVValue":
				st.Emit("FORMAT", call.Pos(), args...)
				return absint.Nil{}, true
			case "strings.(*Builder).String":
				st.Emit("TAKE", call.Pos())
				return absint.S("CELLTEXT"), true
			case "strings.(*Builder).Reset":
				st.Emit("RESET", call.Pos())
				return absint.Nil{}, true
			case "encoding/csv.(*Writer).Write":
				st.Emit("WRITEROW", call.Pos(), args...)
				return absint.S("WRITEERR"), true
			case "encoding/csv.(*Writer).Flush":
				st.Emit("FLUSH", call.Pos())
				return absint.Nil{}, true
			case "encoding/csv.(*Writer).Error":
				return absint.S("FLUSHERR"), true
			case "io.WriteString":
				st.Emit("RAWWRITE", call.Pos(), args...)
				return absint.Tuple{Elems: []absint.Val{absint.S("N"), absint.S("RAWERR")}}, true
			}
			return nil, false
		}
		outs, err := runDecl(in, fn, nil, "")
		if err != nil {
			c.Unknown("CROW", key, fn.Decl.Pos(), err.Error())
			return
		}
		total += len(outs)
		for _, o := range outs {
			if o.Kind != "return" || len(o.Values) != 1 {
				continue
			}
			var seq []string
			raw := ""
			for _, e := range o.Events {
				switch e.Name {
				case "FORMAT":
					seq = append(seq, "FORMAT("+e.Args[len(e.Args)-1].Canon()+")")
				case "TAKE", "RESET", "FLUSH":
					seq = append(seq, e.Name)
				case "WRITEROW":
					seq = append(seq, "WRITEROW")
				case "RAWWRITE":
					seq = append(seq, "RAWWRITE")
					if len(e.Args) == 2 {
						raw = e.Args[1].Canon()
					}
				}
				if strings.HasPrefix(e.Name, "store ") && strings.Contains(e.Name, "[") && len(e.Args) == 1 && e.Args[0].Canon() == "CELLTEXT" {
					seq = append(seq, "CELL"+e.Name[strings.LastIndex(e.Name, "["):])
				}
			}
			got := strings.Join(seq, " ")
			// per cell: FORMAT(values[i]) TAKE CELL[i] RESET
			cells := strings.Count(got, "FORMAT(")
			re := 0
			for k := 0; k+3 < len(seq); k++ {
				if strings.HasPrefix(seq[k], "FORMAT(") && seq[k+1] == "TAKE" && strings.HasPrefix(seq[k+2], "CELL[") && seq[k+3] == "RESET" {
					idx := strings.TrimSuffix(strings.TrimPrefix(seq[k+2], "CELL["), "]")
					if strings.HasSuffix(seq[k], "["+idx+"])") {
						re++
					}
				}
			}
			if cells == 0 || re != cells {
				bad = "every cell i must be formatted from values[i], taken from the builder into row[i], and the builder reset before the next cell: " + got
			}
			if single {
				// encoding/csv writes a record of one empty field as an empty line, which every csv reader skips
				ret := o.Values[0].Canon()
				switch {
				case strings.Contains(got, "WRITEROW"):
					bad = "a row of one empty field (a NULL in a one-column result) is handed to csv.Writer.Write, which writes it as an empty line — not a record: readers, octosql's own included, skip it"
				case ret == "FLUSHERR" && !strings.Contains(got, "RAWWRITE"):
					// the flush failed: nothing more can be written
				case !strings.HasSuffix(got, "FLUSH RAWWRITE"):
					bad = "a row of one empty field must be written as a quoted empty field after flushing the csv writer: " + got
				case !strings.HasPrefix(raw, `"\"\"`) && !strings.HasPrefix(raw, "\"\\\"\\\""):
					bad = "a row of one empty field must be written as \"\" and a newline; it writes " + raw
				case ret != "RAWERR":
					bad = "the error of writing the quoted empty field must be returned, returns " + o.Show(o.Values[0])
				}
				continue
			}
			if len(seq) == 0 || seq[len(seq)-1] != "WRITEROW" {
				bad = "the row must be handed to the csv writer after all cells: " + got
			}
			if o.Values[0].Canon() != "WRITEERR" {
				bad = "the csv writer's error must be returned, returns " + o.Show(o.Values[0])
			}
		}
		if len(outs) == 0 {
			bad = "no outcome"
		}
	}
	outs := make([]int, total)
	c.Decide(bad == "", "CROW", key, fn.Decl.Pos(), len(outs), "format → take → store → reset per cell; write; return its error", bad)

	// header and flush
	sh := p.Func("outputs/formats", "(*CSVFormatter).SetSchema")
	cl := p.Func("outputs/formats", "(*CSVFormatter).Close")
	if sh == nil || cl == nil {
		c.Unknown("CROW", "outputs/formats.(*CSVFormatter).SetSchema/Close", 0, "anchor not found")
		return
	}
	hdr, wr := false, false
	ast.Inspect(sh.Decl.Body, func(n ast.Node) bool {
		if as, ok := n.(*ast.AssignStmt); ok && len(as.Lhs) == 1 && len(as.Rhs) == 1 {
			l, r := core.ExprStr(as.Lhs[0]), core.ExprStr(as.Rhs[0])
			if strings.HasSuffix(l, "[i]") && strings.HasSuffix(r, ".fields[i].Name") {
				hdr = true
			}
		}
		if call, ok := n.(*ast.CallExpr); ok && p.CalleeName(sh.Info(), call) == "encoding/csv.(*Writer).Write" {
			wr = true
		}
		return true
	})
	flush := false
	ast.Inspect(cl.Decl.Body, func(n ast.Node) bool {
		if call, ok := n.(*ast.CallExpr); ok && p.CalleeName(cl.Info(), call) == "encoding/csv.(*Writer).Flush" {
			flush = true
		}
		return true
	})
	c.Decide(hdr && wr && flush, "CROW", "outputs/formats.(*CSVFormatter).SetSchema/Close", sh.Decl.Pos(), 3, "header = field names in order; Close flushes",
		fmt.Sprintf("the csv header must list the field names position by position and be written, and Close must flush the writer (header names=%v, written=%v, flush=%v)", hdr, wr, flush))
	_ = sort.Strings
}

// checkJSONStringEscaper: the String arm hands the text to fastjson's Arena.NewString; what reaches the output is
// decided by that library's marshaller.  Its source (the version the build resolves) is read: the routine that writes
// string values must not fall back to a Go-syntax quoter (strconv.Quote/AppendQuote emit \x01, \a, \v, \U0001F600 —
// none of which JSON knows).
func checkJSONStringEscaper(c *core.Ctx) {
	p := c.Prog
	pkg := p.Pkg("outputs/formats")
	key := "github.com/valyala/fastjson.escapeString"
	if pkg == nil {
		c.Unknown("JSTR", key, 0, "package outputs/formats not found")
		return
	}
	dep := pkg.Imports["github.com/valyala/fastjson"]
	if dep == nil || len(dep.GoFiles) == 0 {
		c.Unknown("JSTR", key, 0, "the fastjson sources the build resolves were not found")
		return
	}
	fset := token.NewFileSet()
	var found *ast.FuncDecl
	for _, f := range dep.GoFiles {
		file, err := parser.ParseFile(fset, f, nil, 0)
		if err != nil {
			continue
		}
		for _, d := range file.Decls {
			if fd, ok := d.(*ast.FuncDecl); ok && fd.Recv == nil && fd.Name.Name == "escapeString" {
				found = fd
			}
		}
	}
	if found == nil {
		c.Unknown("JSTR", key, 0, "fastjson has no escapeString (library changed): the string marshaller must be re-identified")
		return
	}
	goQuote := ""
	ast.Inspect(found.Body, func(n ast.Node) bool {
		if call, ok := n.(*ast.CallExpr); ok {
			if f := core.ExprStr(call.Fun); f == "strconv.AppendQuote" || f == "strconv.Quote" || f == "strconv.AppendQuoteToASCII" || f == "strconv.QuoteToASCII" {
				goQuote = f
			}
		}
		return true
	})
	pos := fset.Position(found.Pos())
	c.Decide(goQuote == "", "JSTR", key, 0, 1, "string values are written by a JSON escaper",
		fmt.Sprintf("string values are marshalled by fastjson.escapeString (%s:%d), which falls back to %s for any string holding a quote, backslash or control byte: control characters, invalid UTF-8 and non-printable astral runes come out as \\x01, \\a, \\U0001…, which is not JSON", filepath.Base(pos.Filename), pos.Line, goQuote))
}

// checkOutputNames: WithoutQualifiers shortens "table.column" to "column" only when that short name is unique; with two
// columns sharing a short name the JSON object would carry one key twice (the later value replaces the earlier).
// Also: the csv writer keeps its default record format (UseCRLF drops carriage returns inside fields).
func checkOutputNames(c *core.Ctx) {
	p := c.Prog
	fn := p.Func("outputs/formats", "WithoutQualifiers")
	key := "outputs/formats.WithoutQualifiers"
	if fn == nil {
		c.Unknown("NAMES", key, 0, "anchor not found")
		return
	}
	c.SawFunc(key)
	pname := fn.Decl.Type.Params.List[0].Names[0].Name
	for _, sc := range []struct {
		name  string
		count int64
	}{{"short name unique", 1}, {"short name shared by two columns", 2}} {
		sc := sc
		in := newInterp(p, fn)
		in.MaxPaths = 2000
		in.Hooks.Loop = func(st *absint.State, loop ast.Stmt) *absint.LoopSpec {
			return &absint.LoopSpec{Cases: []string{"FIELD"}, MaxIter: 1, MinIter: 1, RefStep: func(ref, cs string) string { return "" }}
		}
		in.Hooks.Index = func(st *absint.State, x, i absint.Val) (absint.Val, bool) {
			// a table looked up by a column's short name: how many columns share it
			if strings.Contains(i.Canon(), "SHORT(") {
				return absint.Int(sc.count), true
			}
			return nil, false
		}
		in.Hooks.Call = func(st *absint.State, call *ast.CallExpr, callee string, recv absint.Val, args []absint.Val) (absint.Val, bool) {
			switch {
			case strings.HasPrefix(callee, "value:") && len(args) == 1:
				return absint.S("SHORT(" + args[0].Canon() + ")"), true
			case callee == "strings.Contains":
				return nil, false
			case callee == "strings.SplitN", callee == "strings.Split":
				return absint.S("SPLIT(" + args[0].Canon() + ")"), true
			}
			return nil, false
		}
		outs, err := runDecl(in, fn, nil, "")
		ckey := key + "/" + sc.name
		if err != nil {
			c.Unknown("NAMES", ckey, fn.Decl.Pos(), err.Error())
			continue
		}
		bad := ""
		n := 0
		for _, o := range outs {
			if o.Kind != "return" {
				continue
			}
			for _, e := range o.Events {
				if !strings.HasPrefix(e.Name, "store ") || !strings.Contains(e.Name, "[") || len(e.Args) != 1 {
					continue
				}
				nm := o.Field(e.Args[0], "Name")
				ty := o.Field(e.Args[0], "Type")
				if nm == nil || ty == nil {
					continue
				}
				n++
				full := strings.HasPrefix(nm.Canon(), pname+"[") && strings.HasSuffix(nm.Canon(), "].Name")
				if sc.count > 1 && !full {
					bad = fmt.Sprintf("two columns share a short name, yet the output name is %s instead of the qualified name: the JSON object gets the same key twice and one value is lost", o.Show(nm))
				}
				if !strings.HasPrefix(ty.Canon(), pname+"[") || !strings.HasSuffix(ty.Canon(), "].Type") {
					bad = "the output field must keep the input field's type, has " + o.Show(ty)
				}
			}
		}
		if bad == "" && n == 0 {
			bad = "no output field is stored"
		}
		c.Decide(bad == "", "NAMES", ckey, fn.Decl.Pos(), len(outs), "qualified name kept unless the short one is unique", bad)
	}
	// csv writer configuration
	nSet, badSet := 0, ""
	for _, fr := range p.AllFuncs("outputs/formats", "outputs/eager") {
		info := fr.Info()
		ast.Inspect(fr.Decl.Body, func(n ast.Node) bool {
			as, ok := n.(*ast.AssignStmt)
			if !ok {
				return true
			}
			for i, l := range as.Lhs {
				se, ok := l.(*ast.SelectorExpr)
				if !ok {
					continue
				}
				t := info.TypeOf(se.X)
				if t == nil || !strings.HasSuffix(strings.TrimPrefix(t.String(), "*"), "encoding/csv.Writer") {
					continue
				}
				nSet++
				if se.Sel.Name == "UseCRLF" && i < len(as.Rhs) && core.ExprStr(as.Rhs[i]) != "false" {
					badSet = fmt.Sprintf("%s: %s = %s — with UseCRLF encoding/csv drops every carriage return inside a field", p.Pos(as.Pos()), core.ExprStr(l), core.ExprStr(as.Rhs[i]))
				}
			}
			return true
		})
	}
	c.Decide(badSet == "", "CROW", "outputs/formats/csv writer settings", 0, nSet+1, "the csv writer keeps byte-preserving settings", "string cells must survive byte for byte: "+badSet)
}

// checkTimeLayout: a Time is rendered with a layout that keeps the fractional seconds — the readers parse with
// nanosecond precision and event times are compared at that precision, so a layout without the fraction prints
// distinct values alike.
func checkTimeLayout(c *core.Ctx, rule, key string, fn *core.FuncRef) {
	info := fn.Info()
	n, bad := 0, ""
	ast.Inspect(fn.Decl.Body, func(nd ast.Node) bool {
		call, ok := nd.(*ast.CallExpr)
		if !ok || len(call.Args) != 1 {
			return true
		}
		sel, ok := call.Fun.(*ast.SelectorExpr)
		if !ok || sel.Sel.Name != "Format" {
			return true
		}
		if t := info.TypeOf(sel.X); t == nil || t.String() != "time.Time" {
			return true
		}
		n++
		tv := info.Types[call.Args[0]]
		if tv.Value == nil || tv.Value.Kind() != constant.String {
			bad = fmt.Sprintf("%s: the layout %s is not a constant", c.Prog.Pos(call.Pos()), core.ExprStr(call.Args[0]))
			return true
		}
		layout := constant.StringVal(tv.Value)
		if !strings.Contains(layout, ".999999999") && !strings.Contains(layout, ".000000000") && !strings.Contains(layout, ",999999999") && !strings.Contains(layout, ",000000000") {
			bad = fmt.Sprintf("%s: the layout %q drops the fractional seconds: times that differ below one second print alike", c.Prog.Pos(call.Pos()), layout)
		} else if !strings.Contains(layout, "2006") || !strings.Contains(layout, "Z07") && !strings.Contains(layout, "-07") {
			bad = fmt.Sprintf("%s: the layout %q drops the year or the zone offset", c.Prog.Pos(call.Pos()), layout)
		}
		return true
	})
	c.Decide(bad == "" && n >= 1, rule, key+"/time layout", fn.Decl.Pos(), n, "times are rendered with nanoseconds, year and zone offset", bad)
}
