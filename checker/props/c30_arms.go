package props

import (
	"fmt"
	"go/ast"
	"go/constant"
	"go/types"
	"os"
	"path/filepath"
	"regexp"
	"sort"
	"strings"

	"octoverif/core"
)

// checkActionArms (FMT9): printers that switch on a string-typed "action" field (DDL.Action, DBDDL.Action …) print one
// sentence per action. The sentence of an arm parses back to the same node only if at least one production that builds
// a node with that action is *covered* by the arm: every symbol of the production is optional, kept in the tree by the
// production's action ($n), or a keyword the arm prints. If every such production has a mandatory part that is neither
// kept nor printed — the grammar swallowed it with force_eof — the arm prints a sentence no production accepts
// (`create index i on t (a)` → "alter table t").
func checkActionArms(c *core.Ctx, rule string, formats map[*types.Named]*ast.FuncDecl) {
	p := c.Prog
	pkg := p.Pkg("parser/sqlparser")
	if pkg == nil || len(pkg.GoFiles) == 0 {
		c.Unknown(rule, "parser/sqlparser", 0, "package not found")
		return
	}
	src, err := os.ReadFile(filepath.Join(filepath.Dir(pkg.GoFiles[0]), "sql.y"))
	if err != nil {
		c.Unknown(rule, "parser/sqlparser/sql.y", 0, err.Error())
		return
	}
	prods := parseYacc(string(src))
	info := pkg.TypesInfo
	// keyword texts
	kw := map[string]string{}
	for _, f := range pkg.Syntax {
		ast.Inspect(f, func(n ast.Node) bool {
			vs, ok := n.(*ast.ValueSpec)
			if !ok || len(vs.Names) != 1 || vs.Names[0].Name != "keywords" || len(vs.Values) != 1 {
				return true
			}
			if cl, ok := vs.Values[0].(*ast.CompositeLit); ok {
				for _, el := range cl.Elts {
					kv := el.(*ast.KeyValueExpr)
					if bl, ok := kv.Key.(*ast.BasicLit); ok {
						if id, ok := kv.Value.(*ast.Ident); ok && id.Name != "UNUSED" {
							if _, dup := kw[id.Name]; !dup {
								kw[id.Name] = strings.Trim(bl.Value, `"`)
							}
						}
					}
				}
			}
			return true
		})
	}
	// grammar facts: nonterminals, nullability, single-token nonterminals
	isNT := map[string]bool{}
	for _, pr := range prods {
		isNT[pr.lhs] = true
	}
	nullable := map[string]bool{}
	for changed := true; changed; {
		changed = false
		for _, pr := range prods {
			if nullable[pr.lhs] {
				continue
			}
			all := true
			for _, s := range pr.symbols {
				if !nullable[s] {
					all = false
				}
			}
			if all {
				nullable[pr.lhs] = true
				changed = true
			}
		}
	}
	// punct[N] = the character N derives when all its productions are one quoted character ('(' for openb)
	punct := map[string]string{}
	byLHS := map[string][]production{}
	for _, pr := range prods {
		byLHS[pr.lhs] = append(byLHS[pr.lhs], pr)
	}
	for n, ps := range byLHS {
		ch := ""
		ok := true
		for _, pr := range ps {
			if len(pr.symbols) != 1 || !strings.HasPrefix(pr.symbols[0], "'") {
				ok = false
				break
			}
			ch = strings.Trim(pr.symbols[0], "'")
		}
		if ok && ch != "" {
			punct[n] = ch
		}
	}
	wordRe := regexp.MustCompile(`[A-Za-z_]+`)
	dollarRe := regexp.MustCompile(`\$(\d+)`)
	var tnames []string
	byName := map[string]*types.Named{}
	for n := range formats {
		byName[n.Obj().Name()] = n
		tnames = append(tnames, n.Obj().Name())
	}
	sort.Strings(tnames)
	arms := 0
	for _, tname := range tnames {
		fd := formats[byName[tname]]
		if len(fd.Recv.List[0].Names) == 0 {
			continue
		}
		recv := fd.Recv.List[0].Names[0].Name
		for _, st := range fd.Body.List {
			sw, ok := st.(*ast.SwitchStmt)
			if !ok || sw.Tag == nil {
				continue
			}
			sel, ok := sw.Tag.(*ast.SelectorExpr)
			if !ok || core.ExprStr(sel.X) != recv {
				continue
			}
			if b, ok := info.TypeOf(sw.Tag).Underlying().(*types.Basic); !ok || b.Kind() != types.String {
				continue
			}
			field := sel.Sel.Name
			for _, cs := range sw.Body.List {
				cc := cs.(*ast.CaseClause)
				for _, ke := range cc.List {
					kname := core.ExprStr(ke)
					kval := ""
					if tv := info.Types[ke]; tv.Value != nil && tv.Value.Kind() == constant.String {
						kval = constant.StringVal(tv.Value)
					}
					type subArm struct {
						label   string
						stmts   []ast.Stmt
						has     string   // field that is set in this branch ("" for none)
						without []string // fields that are nil in this branch
					}
					subs := []subArm{{"", cc.Body, "", nil}}
					// an arm that is one if / else-if chain on `node.F != nil` prints a different sentence per branch
					if len(cc.Body) == 1 {
						if ifs, ok := cc.Body[0].(*ast.IfStmt); ok {
							var chain []subArm
							var seen []string
							cur := ifs
							okChain := true
							for cur != nil {
								cond := core.ExprStr(cur.Cond)
								if !strings.HasPrefix(cond, recv+".") || !strings.HasSuffix(cond, " != nil") {
									okChain = false
									break
								}
								f := strings.TrimSuffix(strings.TrimPrefix(cond, recv+"."), " != nil")
								chain = append(chain, subArm{" with " + f, cur.Body.List, f, append([]string(nil), seen...)})
								seen = append(seen, f)
								switch e := cur.Else.(type) {
								case *ast.IfStmt:
									cur = e
								case *ast.BlockStmt:
									chain = append(chain, subArm{" without " + strings.Join(seen, ", "), e.List, "", append([]string(nil), seen...)})
									cur = nil
								default:
									cur = nil
								}
							}
							if okChain && len(chain) > 1 {
								subs = chain
							}
						}
					}
					for _, sub := range subs {
						// what the arm prints
						printed := map[string]bool{}
						for _, w := range wordRe.FindAllString(strings.ToLower(kval), -1) {
							printed[w] = true
						}
						chars := ""
						for _, s := range sub.stmts {
							ast.Inspect(s, func(n ast.Node) bool {
								if bl, ok := n.(*ast.BasicLit); ok && strings.HasPrefix(bl.Value, `"`) {
									for _, w := range wordRe.FindAllString(strings.ToLower(bl.Value), -1) {
										printed[w] = true
									}
									chars += bl.Value
								}
								return true
							})
						}
						actRe := regexp.MustCompile(`&` + tname + `\{[^}]*\b` + field + `:\s*` + regexp.QuoteMeta(kname) + `\b`)
						var mine []production
						for _, pr := range prods {
							if !actRe.MatchString(pr.action) {
								continue
							}
							lit := pr.action[strings.Index(pr.action, "&"+tname+"{"):]
							if i := strings.Index(lit, "}"); i > 0 {
								lit = lit[:i]
							}
							keep := true
							if sub.has != "" && !regexp.MustCompile(`\b`+sub.has+`:`).MatchString(lit) {
								keep = false
							}
							for _, f := range sub.without {
								if regexp.MustCompile(`\b` + f + `:`).MatchString(lit) {
									keep = false
								}
							}
							if keep {
								mine = append(mine, pr)
							}
						}
						if len(mine) == 0 {
							continue
						}
						arms++
						covered := ""
						var gaps []string
						for _, pr := range mine {
							captured := map[int]bool{}
							for _, m := range dollarRe.FindAllStringSubmatch(pr.action, -1) {
								n := 0
								fmt.Sscanf(m[1], "%d", &n)
								captured[n] = true
							}
							gap := ""
							for i, s := range pr.symbols {
								switch {
								case captured[i+1], nullable[s]:
								case strings.HasPrefix(s, "'"):
									if !strings.Contains(chars, strings.Trim(s, "'")) {
										gap = s
									}
								case punct[s] != "":
									if !strings.Contains(chars, punct[s]) {
										gap = s
									}
								case !isNT[s]:
									if txt, ok := kw[s]; !ok || !printed[strings.ToLower(txt)] {
										gap = s
									}
								default:
									gap = s
								}
								if gap != "" {
									break
								}
							}
							if gap == "" {
								covered = pr.lhs + ": " + strings.Join(pr.symbols, " ")
								break
							}
							gaps = append(gaps, fmt.Sprintf("`%s: %s` (sql.y:%d) needs %s", pr.lhs, strings.Join(pr.symbols, " "), pr.line, gap))
						}
						key := fmt.Sprintf("%s/case %s%s", tname, kname, sub.label)
						if len(gaps) > 3 {
							gaps = append(gaps[:3], fmt.Sprintf("… %d more", len(gaps)-3))
						}
						c.Decide(covered != "", rule, key, cc.Pos(), len(mine), "prints everything `"+covered+"` needs",
							fmt.Sprintf("the %s arm of %s.Format prints neither a kept value nor a keyword for a mandatory part of every production that builds this node: %s — the grammar swallows that part (force_eof) and the printed sentence is one no production accepts", kname+sub.label, tname, strings.Join(gaps, "; ")))
					}
				}
			}
		}
	}
	c.Floor(rule, 4, "action arms with grammar productions")
	_ = arms
}
