package props

import (
	"fmt"
	"go/ast"
	"go/token"
	"go/types"
	"strings"

	"octoverif/core"
	"octoverif/engine/absint"
)

// nodeRunCallbacks finds the calls of execution.Node.Run inside fn and returns
// their produce (arg 1) and metaSend (arg 2) function literals.
type runCall struct {
	Call     *ast.CallExpr
	Produce  *ast.FuncLit
	MetaSend *ast.FuncLit
}

func nodeRunCalls(p *core.Program, fn *core.FuncRef) []runCall {
	info := fn.Info()
	var out []runCall
	ast.Inspect(fn.Decl.Body, func(n ast.Node) bool {
		call, ok := n.(*ast.CallExpr)
		if !ok || len(call.Args) != 3 {
			return true
		}
		if p.CalleeName(info, call) != "execution.Node.Run" {
			return true
		}
		rc := runCall{Call: call}
		rc.Produce = funcValueLit(p, fn, call.Args[1])
		rc.MetaSend = funcValueLit(p, fn, call.Args[2])
		out = append(out, rc)
		return true
	})
	return out
}

// checkFilter (ABS3): the produce callback of (*Filter).Run forwards the record
// iff the predicate evaluates to Boolean TRUE.
func checkFilter(c *core.Ctx, ids map[string]int64) {
	p := c.Prog
	fn := p.Func("execution/nodes", "(*Filter).Run")
	key := "execution/nodes.(*Filter).Run"
	if fn == nil {
		c.Unknown("ABS3", key, 0, "anchor not found")
		return
	}
	c.SawFunc(key)
	rcs := nodeRunCalls(p, fn)
	if len(rcs) != 1 || rcs[0].Produce == nil {
		c.Unknown("ABS3", key, fn.Decl.Pos(), "expected exactly one source.Run call with a literal produce callback")
		return
	}
	lit := rcs[0].Produce
	recParam := lit.Type.Params.List[1].Names[0].Name
	for _, cs := range []string{"TRUE", "FALSE", "NULL", "NONBOOL", "ERR"} {
		cs := cs
		in := newInterp(p, fn)
		in.Hooks.Call = chainCall(func(st *absint.State, call *ast.CallExpr, callee string, recv absint.Val, args []absint.Val) (absint.Val, bool) {
			switch callee {
			case "execution.Expression.Evaluate":
				switch cs {
				case "TRUE":
					return absint.Tuple{Elems: []absint.Val{mkValue(st, ids, "TypeIDBoolean", "Boolean", absint.Bool(true)), absint.Nil{}}}, true
				case "FALSE":
					return absint.Tuple{Elems: []absint.Val{mkValue(st, ids, "TypeIDBoolean", "Boolean", absint.Bool(false)), absint.Nil{}}}, true
				case "NULL":
					return absint.Tuple{Elems: []absint.Val{mkValue(st, ids, "TypeIDNull", "", nil), absint.Nil{}}}, true
				case "NONBOOL":
					return absint.Tuple{Elems: []absint.Val{mkValue(st, ids, "TypeIDInt", "Int", absint.S("n")), absint.Nil{}}}, true
				default:
					return absint.Tuple{Elems: []absint.Val{absint.S("garbage"), absint.NN("evalErr")}}, true
				}
			case "value:produce":
				st.Emit("PRODUCE", call.Pos(), args...)
				return absint.S("produceErr"), true
			}
			return nil, false
		}, ctorHook(ids), errorfHook)
		outs, err := runLit(in, lit, nil, "")
		k := key + "/predicate=" + cs
		if err != nil {
			c.Unknown("ABS3", k, lit.Pos(), err.Error())
			continue
		}
		bad := ""
		for _, o := range outs {
			n := 0
			for _, e := range o.Events {
				if e.Name == "PRODUCE" {
					n++
					if len(e.Args) != 2 || e.Args[1].Canon() != recParam {
						bad = "a record other than the input record is forwarded: " + e.String()
					}
				}
			}
			if o.Kind != "return" || len(o.Values) != 1 {
				bad = "unexpected outcome " + o.String()
				continue
			}
			switch cs {
			case "TRUE":
				if n != 1 {
					bad = fmt.Sprintf("predicate TRUE: the record must be forwarded exactly once, got %d: %s", n, o.String())
				}
				produceFailed := false
				for a, v := range o.Assumed {
					if strings.Contains(a, "produceErr") && !v {
						produceFailed = true
					}
				}
				if produceFailed && !isNonNilErr(o.Values[0]) {
					bad = "the error of produce is dropped: " + o.String()
				}
				if !produceFailed && isNonNilErr(o.Values[0]) {
					bad = "an error is returned although nothing failed: " + o.String()
				}
			case "ERR":
				if n != 0 || !isNonNilErr(o.Values[0]) {
					bad = "predicate evaluation failed: nothing may be forwarded and the error must be returned: " + o.String()
				}
			default:
				if n != 0 {
					bad = "predicate is " + cs + " but the record is forwarded: " + o.String()
				} else if isNonNilErr(o.Values[0]) {
					bad = "predicate is " + cs + ": the row is dropped, not an error: " + o.String()
				}
			}
		}
		c.Decide(bad == "" && len(outs) > 0, "ABS3", k, lit.Pos(), len(outs), "forwarded iff TRUE", bad)
	}
	c.Floor("ABS3", 5, "TRUE/FALSE/NULL/non-Boolean/error")
}

// checkStrictMirror (MIR4): logical.(*FunctionExpression).Typecheck marks the
// output nullable and physical.(*Expression).Materialize inserts a null check
// under the same predicate: descriptor.Strict ∧ Null.Is(arg.Type) == Is.
func checkStrictMirror(c *core.Ctx) {
	p := c.Prog
	type site struct {
		rel, name, effect string
	}
	results := map[string]string{}
	for _, s := range []site{{"logical", "(*FunctionExpression).Typecheck", "nullable"}, {"physical", "(*Expression).Materialize", "nullcheck"}} {
		fn := p.Func(s.rel, s.name)
		key := s.rel + "." + s.name
		if fn == nil {
			c.Unknown("MIR4", key, 0, "anchor not found")
			continue
		}
		c.SawFunc(key)
		info := fn.Info()
		// find: if X.Strict { for i := range ARGS { if COND { EFFECT } } }
		var found *ast.IfStmt
		var rng *ast.RangeStmt
		ast.Inspect(fn.Decl.Body, func(n ast.Node) bool {
			is, ok := n.(*ast.IfStmt)
			if !ok || found != nil {
				return true
			}
			sel, ok := core.Unparen(is.Cond).(*ast.SelectorExpr)
			if !ok || sel.Sel.Name != "Strict" || len(is.Body.List) != 1 {
				return true
			}
			r, ok := is.Body.List[0].(*ast.RangeStmt)
			if !ok || len(r.Body.List) != 1 {
				return true
			}
			inner, ok := r.Body.List[0].(*ast.IfStmt)
			if !ok {
				return true
			}
			found, rng = inner, r
			return false
		})
		if found == nil {
			c.Unknown("MIR4", key, fn.Decl.Pos(), "no `if ….Strict { for i := range args { if … } }` block found")
			continue
		}
		if !strings.HasSuffix(core.ExprStr(rng.X), ".Arguments") {
			c.Bad("MIR4", key+"/range", rng.Pos(), 1, "the strict-null loop must range over the call's Arguments, ranges over "+core.ExprStr(rng.X))
		}
		idx := ""
		if id, ok := rng.Key.(*ast.Ident); ok {
			idx = id.Name
		}
		// truth table of the guard over the relation Null.Is(arg.Type)
		relNames := map[string]int64{}
		sc := p.Pkg("octosql").Types.Scope()
		for _, n := range []string{"TypeRelationIsnt", "TypeRelationMaybe", "TypeRelationIs"} {
			if cst, ok := sc.Lookup(n).(*types.Const); ok {
				v, _ := absint.AsInt(absint.Const{V: cst.Val()})
				relNames[n] = v
			}
		}
		table := ""
		okArg := true
		for _, rn := range []string{"TypeRelationIsnt", "TypeRelationMaybe", "TypeRelationIs"} {
			in := &absint.Interp{Info: info, Prog: p}
			in.Hooks.Call = func(st *absint.State, call *ast.CallExpr, callee string, recv absint.Val, args []absint.Val) (absint.Val, bool) {
				if callee == "octosql.Type.Is" {
					want := core.ExprStr(rng.X) + "[" + idx + "].Type"
					if recv.Canon() != "octosql.Null" || len(args) != 1 || !strings.HasSuffix(args[0].Canon(), "["+idx+"].Type") || !strings.Contains(want, ".Arguments[") {
						okArg = false
					}
					return absint.Int(relNames[rn]), true
				}
				return nil, false
			}
			res, err := in.RunCond(found.Cond)
			if err != nil || len(res) != 1 {
				c.Unknown("MIR4", key+"/guard", found.Pos(), fmt.Sprint("cannot evaluate guard: ", err, len(res)))
				table = "?"
				break
			}
			table += fmt.Sprintf("%s→%v ", strings.TrimPrefix(rn, "TypeRelation"), res[0].Value)
		}
		if table == "?" {
			continue
		}
		want := "Isnt→false Maybe→false Is→true "
		c.Decide(table == want && okArg, "MIR4", key+"/guard", found.Pos(), 3, "guard: Strict ∧ Null.Is(arg[i].Type)==Is", "guard truth table over Null.Is(arg.Type) is "+table+"(expected "+want+") or it is not applied to Arguments[i].Type")
		// effect
		eff := core.ExprStr(found.Body)
		switch s.effect {
		case "nullable":
			ok := false
			ast.Inspect(found.Body, func(n ast.Node) bool {
				if as, ok2 := n.(*ast.AssignStmt); ok2 && as.Tok == token.ASSIGN && len(as.Rhs) == 1 {
					if call, ok3 := as.Rhs[0].(*ast.CallExpr); ok3 && p.CalleeName(info, call) == "octosql.TypeSum" && len(call.Args) == 2 {
						a, b := core.ExprStr(call.Args[0]), core.ExprStr(call.Args[1])
						l := core.ExprStr(as.Lhs[0])
						if strings.HasSuffix(l, ".Type") && ((a == l && b == "octosql.Null") || (b == l && a == "octosql.Null")) {
							ok = true
						}
					}
				}
				return true
			})
			c.Decide(ok, "MIR4", key+"/effect", found.Body.Pos(), 1, "output type := TypeSum(output type, Null)", "the guarded block does not make the output type nullable: "+eff)
		case "nullcheck":
			ok := false
			ast.Inspect(found.Body, func(n ast.Node) bool {
				if as, ok2 := n.(*ast.AssignStmt); ok2 && len(as.Rhs) == 1 {
					if call, ok3 := as.Rhs[0].(*ast.CallExpr); ok3 && core.ExprStr(call.Fun) == "append" && len(call.Args) == 2 && core.ExprStr(call.Args[1]) == idx && core.ExprStr(call.Args[0]) == core.ExprStr(as.Lhs[0]) {
						ok = true
					}
				}
				return true
			})
			c.Decide(ok, "MIR4", key+"/effect", found.Body.Pos(), 1, "nullCheckIndices = append(nullCheckIndices, i)", "the guarded block does not record the argument index for a null check: "+eff)
		}
		results[s.effect] = table
	}
	c.Floor("MIR4", 4, "guard + effect at both sites")
}
