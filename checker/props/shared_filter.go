package props

import (
	"fmt"
	"go/ast"
	"go/token"
	"go/types"
	"strings"

	"octoverif/core"
	"octoverif/engine/absint"
)

// nodeRunCallbacks finds the calls of execution.Node.Run inside fn and returns
// their produce (arg 1) and metaSend (arg 2) function literals.
type runCall struct {
	Call     *ast.CallExpr
	Produce  *ast.FuncLit
	MetaSend *ast.FuncLit
}

// runSite: the function that runs the node's source — fn itself, or the helper of fn that was handed that step
// (a Run split into collect and emit phases).
func runSite(p *core.Program, fn *core.FuncRef) *core.FuncRef {
	for _, h := range helperClosure(p, fn) {
		if len(nodeRunCalls(p, h)) > 0 {
			return h
		}
	}
	return fn
}

func nodeRunCalls(p *core.Program, fn *core.FuncRef) []runCall {
	info := fn.Info()
	var out []runCall
	ast.Inspect(fn.Decl.Body, func(n ast.Node) bool {
		call, ok := n.(*ast.CallExpr)
		if !ok || len(call.Args) != 3 {
			return true
		}
		if p.CalleeName(info, call) != "execution.Node.Run" {
			return true
		}
		rc := runCall{Call: call}
		rc.Produce = funcValueLit(p, fn, call.Args[1])
		rc.MetaSend = funcValueLit(p, fn, call.Args[2])
		out = append(out, rc)
		return true
	})
	return out
}

// checkFilter (ABS3): the produce callback of (*Filter).Run forwards the record
// iff the predicate evaluates to Boolean TRUE.
func checkFilter(c *core.Ctx, ids map[string]int64) {
	p := c.Prog
	fn := p.Func("execution/nodes", "(*Filter).Run")
	key := "execution/nodes.(*Filter).Run"
	if fn == nil {
		c.Unknown("ABS3", key, 0, "anchor not found")
		return
	}
	c.SawFunc(key)
	rcs := nodeRunCalls(p, fn)
	if len(rcs) != 1 || rcs[0].Produce == nil {
		c.Unknown("ABS3", key, fn.Decl.Pos(), "expected exactly one source.Run call with a literal produce callback")
		return
	}
	lit := rcs[0].Produce
	recParam := lit.Type.Params.List[1].Names[0].Name
	for _, cs := range []string{"TRUE", "FALSE", "NULL", "NONBOOL", "ERR"} {
		cs := cs
		in := newInterp(p, fn)
		in.Hooks.Call = chainCall(func(st *absint.State, call *ast.CallExpr, callee string, recv absint.Val, args []absint.Val) (absint.Val, bool) {
			switch callee {
			case "execution.Expression.Evaluate":
				switch cs {
				case "TRUE":
					return absint.Tuple{Elems: []absint.Val{mkValue(st, ids, "TypeIDBoolean", "Boolean", absint.Bool(true)), absint.Nil{}}}, true
				case "FALSE":
					return absint.Tuple{Elems: []absint.Val{mkValue(st, ids, "TypeIDBoolean", "Boolean", absint.Bool(false)), absint.Nil{}}}, true
				case "NULL":
					return absint.Tuple{Elems: []absint.Val{mkValue(st, ids, "TypeIDNull", "", nil), absint.Nil{}}}, true
				case "NONBOOL":
					return absint.Tuple{Elems: []absint.Val{mkValue(st, ids, "TypeIDInt", "Int", absint.S("n")), absint.Nil{}}}, true
				default:
					return absint.Tuple{Elems: []absint.Val{absint.S("garbage"), absint.NN("evalErr")}}, true
				}
			case "value:produce":
				st.Emit("PRODUCE", call.Pos(), args...)
				return absint.S("produceErr"), true
			}
			return nil, false
		}, ctorHook(ids), errorfHook)
		outs, err := runLit(in, lit, nil, "")
		k := key + "/predicate=" + cs
		if err != nil {
			c.Unknown("ABS3", k, lit.Pos(), err.Error())
			continue
		}
		bad := ""
		for _, o := range outs {
			n := 0
			for _, e := range o.Events {
				if e.Name == "PRODUCE" {
					n++
					if len(e.Args) != 2 || e.Args[1].Canon() != recParam {
						bad = "a record other than the input record is forwarded: " + e.String()
					}
				}
			}
			if o.Kind != "return" || len(o.Values) != 1 {
				bad = "unexpected outcome " + o.String()
				continue
			}
			switch cs {
			case "TRUE":
				if n != 1 {
					bad = fmt.Sprintf("predicate TRUE: the record must be forwarded exactly once, got %d: %s", n, o.String())
				}
				produceFailed := false
				for a, v := range o.Assumed {
					if strings.Contains(a, "produceErr") && !v {
						produceFailed = true
					}
				}
				if produceFailed && !isNonNilErr(o.Values[0]) {
					bad = "the error of produce is dropped: " + o.String()
				}
				if !produceFailed && isNonNilErr(o.Values[0]) {
					bad = "an error is returned although nothing failed: " + o.String()
				}
			case "ERR":
				if n != 0 || !isNonNilErr(o.Values[0]) {
					bad = "predicate evaluation failed: nothing may be forwarded and the error must be returned: " + o.String()
				}
			default:
				if n != 0 {
					bad = "predicate is " + cs + " but the record is forwarded: " + o.String()
				} else if isNonNilErr(o.Values[0]) {
					bad = "predicate is " + cs + ": the row is dropped, not an error: " + o.String()
				}
			}
		}
		c.Decide(bad == "" && len(outs) > 0, "ABS3", k, lit.Pos(), len(outs), "forwarded iff TRUE", bad)
	}
	c.Floor("ABS3", 5, "TRUE/FALSE/NULL/non-Boolean/error")
}

// checkStrictMirror (MIR4): logical.(*FunctionExpression).Typecheck marks the
// output nullable and physical.(*Expression).Materialize inserts a null check
// under the same predicate: descriptor.Strict ∧ Null.Is(arg.Type) == Is.
func checkStrictMirror(c *core.Ctx) {
	p := c.Prog
	type site struct {
		rel, name, effect string
	}
	results := map[string]string{}
	for _, s := range []site{{"logical", "(*FunctionExpression).Typecheck", "nullable"}, {"physical", "(*Expression).Materialize", "nullcheck"}} {
		fn := p.Func(s.rel, s.name)
		key := s.rel + "." + s.name
		if fn == nil {
			c.Unknown("MIR4", key, 0, "anchor not found")
			continue
		}
		c.SawFunc(key)
		info := fn.Info()
		// find the strict-null loop: a loop over the call's Arguments whose body tests Null.Is(argument type), reached
		// only for strict descriptors — `if X.Strict { for … }` or `if !X.Strict { return }` before it — in the
		// function itself or in a helper it was moved to
		var found *ast.IfStmt
		var rng *ast.RangeStmt
		strictAtoms := map[string]bool{} // spellings of "the descriptor is strict" inside the per-argument test
		for _, bf := range helperClosureBound(p, fn) {
			bf := bf
			if found != nil {
				break
			}
			core.WalkStack(bf.fn.Decl.Body, func(n ast.Node, stack []ast.Node) bool {
				r, ok := n.(*ast.RangeStmt)
				if !ok || found != nil || !strings.HasSuffix(resolveText(core.ExprStr(r.X), bf.binds), ".Arguments") {
					return true
				}
				var inner *ast.IfStmt
				ast.Inspect(r.Body, func(m ast.Node) bool {
					if is, ok := m.(*ast.IfStmt); ok && inner == nil && strings.Contains(core.ExprStr(is.Cond), "Null.Is(") {
						inner = is
					}
					return true
				})
				if inner == nil {
					return true
				}
				guarded := false
				for _, anc := range stack {
					if is, ok := anc.(*ast.IfStmt); ok {
						if sel, ok := core.Unparen(is.Cond).(*ast.SelectorExpr); ok && sel.Sel.Name == "Strict" {
							guarded = true
						}
					}
				}
				for _, cnd := range bf.conds {
					if strings.HasSuffix(cnd, ".Strict") {
						guarded = true // the helper is only called for strict descriptors
					}
				}
				// `if isStrict && Null.Is(…) == Is` with isStrict := ….Strict: the guard is a conjunct of the test
				if !guarded {
					var conj func(e ast.Expr) []ast.Expr
					conj = func(e ast.Expr) []ast.Expr {
						if be, ok := core.Unparen(e).(*ast.BinaryExpr); ok && be.Op == token.LAND {
							return append(conj(be.X), conj(be.Y)...)
						}
						return []ast.Expr{core.Unparen(e)}
					}
					for _, cj := range conj(inner.Cond) {
						resolved := cj
						if id, ok := cj.(*ast.Ident); ok {
							if v, ok := bf.fn.Info().Uses[id].(*types.Var); ok {
								if def := singleDef(bf.fn.Info(), bf.fn.Decl.Body, v); def != nil {
									resolved = core.Unparen(def)
								}
							}
						}
						if sel, ok := resolved.(*ast.SelectorExpr); ok && sel.Sel.Name == "Strict" {
							guarded = true
							strictAtoms[core.ExprStr(cj)] = true
						}
					}
				}
				if !guarded {
					// early exit for non-strict descriptors earlier in the same function
					ast.Inspect(bf.fn.Decl.Body, func(m ast.Node) bool {
						is, ok := m.(*ast.IfStmt)
						if !ok || is.Pos() > r.Pos() {
							return true
						}
						if ue, ok := core.Unparen(is.Cond).(*ast.UnaryExpr); ok && ue.Op == token.NOT {
							if sel, ok := core.Unparen(ue.X).(*ast.SelectorExpr); ok && sel.Sel.Name == "Strict" && len(is.Body.List) > 0 {
								switch is.Body.List[len(is.Body.List)-1].(type) {
								case *ast.ReturnStmt, *ast.BranchStmt:
									guarded = true
								}
							}
						}
						return true
					})
				}
				if guarded {
					found, rng = inner, r
					info = bf.fn.Info()
				}
				return true
			})
		}
		if found == nil {
			c.Unknown("MIR4", key, fn.Decl.Pos(), "no `if ….Strict { for i := range args { if … } }` block found")
			continue
		}
		// the loop body is interpreted once per value of Null.Is(argument type): the effect (recording the argument's
		// index for a runtime NULL check / making the output type nullable) must happen exactly for TypeRelationIs —
		// however the body spells it (guard + effect, or `if … != Is { continue }` + effect)
		relNames := map[string]int64{}
		sc := p.Pkg("octosql").Types.Scope()
		for _, n := range []string{"TypeRelationIsnt", "TypeRelationMaybe", "TypeRelationIs"} {
			if cst, ok := sc.Lookup(n).(*types.Const); ok {
				v, _ := absint.AsInt(absint.Const{V: cst.Val()})
				relNames[n] = v
			}
		}
		idx, val := "", ""
		if id, ok := rng.Key.(*ast.Ident); ok {
			idx = id.Name
		}
		if id, ok := rng.Value.(*ast.Ident); ok {
			val = id.Name
		}
		table, effTable := "", ""
		okArg, effectSeen := true, false
		for _, rn := range []string{"TypeRelationIsnt", "TypeRelationMaybe", "TypeRelationIs"} {
			in := &absint.Interp{Info: info, Prog: p}
			in.Hooks.Cond = func(st *absint.State, atom string) (bool, bool) {
				if strictAtoms[atom] || (len(strictAtoms) > 0 && strings.HasSuffix(atom, ".Strict")) {
					return true, true // the mirror is about strict descriptors
				}
				return false, false
			}
			in.Hooks.Call = func(st *absint.State, call *ast.CallExpr, callee string, recv absint.Val, args []absint.Val) (absint.Val, bool) {
				switch callee {
				case "octosql.Type.Is":
					ac := ""
					if len(args) == 1 {
						ac = args[0].Canon()
					}
					// the tested type is the current argument's: ARGS[i].Type or the range value's .Type
					if recv.Canon() != "octosql.Null" || !(strings.HasSuffix(ac, "["+idx+"].Type") && idx != "" || val != "" && ac == val+".Type") {
						okArg = false
					}
					return absint.Int(relNames[rn]), true
				case "octosql.TypeSum":
					if len(args) == 2 && (args[0].Canon() == "octosql.Null" || args[1].Canon() == "octosql.Null") {
						st.Emit("EFFECT nullable", call.Pos())
					}
					return absint.S("SUM"), true
				}
				return nil, false
			}
			outs, err := in.Run(&ast.FuncType{Params: &ast.FieldList{}}, nil, rng.Body, nil, "")
			if err != nil || len(outs) == 0 {
				c.Unknown("MIR4", key+"/guard", found.Pos(), fmt.Sprint("cannot interpret the loop body: ", err))
				table = "?"
				break
			}
			// the effect must happen on every path when the argument type admits NULL, and on none otherwise: a
			// further condition in front of it (some paths with, some without) is a narrower guard than the mirror's
			nWith, nAll := 0, 0
			for _, o := range outs {
				if o.Kind == "panic" {
					continue
				}
				nAll++
				hit := false
				for _, e := range o.Events {
					if s.effect == "nullable" && e.Name == "EFFECT nullable" {
						hit = true
					}
					if s.effect == "nullcheck" && strings.HasPrefix(e.Name, "append") && len(e.Args) >= 1 && e.Args[len(e.Args)-1].Canon() == idx {
						hit = true
					}
				}
				if hit {
					nWith++
				}
			}
			happened := "false"
			switch {
			case nWith == nAll && nAll > 0:
				happened = "true"
				effectSeen = true
			case nWith > 0:
				happened = "on-some-paths"
				effectSeen = true
			}
			table += fmt.Sprintf("%s→%v ", strings.TrimPrefix(rn, "TypeRelation"), happened)
			effTable = table
		}
		if table == "?" {
			continue
		}
		want := "Isnt→false Maybe→false Is→true "
		c.Decide(table == want && okArg, "MIR4", key+"/guard", found.Pos(), 3, "effect ⇔ Strict ∧ Null.Is(arg[i].Type)==Is", "the effect happens for Null.Is(arg.Type) = "+table+"(expected "+want+") or the test is not applied to the current argument's type")
		what := map[string]string{"nullable": "output type := TypeSum(output type, Null)", "nullcheck": "the argument's index is appended to the null-check positions"}[s.effect]
		c.Decide(effectSeen, "MIR4", key+"/effect", found.Body.Pos(), 1, what, "no path through the loop body has the effect ("+what+"): "+effTable)
		results[s.effect] = table
	}
	c.Floor("MIR4", 4, "guard + effect at both sites")
}
