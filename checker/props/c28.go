package props

import (
	"fmt"
	"go/ast"
	"go/constant"
	"go/token"
	"go/types"
	"regexp"
	"strings"

	"octoverif/engine/absint"

	"octoverif/core"
)

// C28 — installed plugins are discovered and versions resolved correctly.
//
//	LAYOUT  the three places that know the on-disk layout agree: Install writes <plugins>/<repo>/octosql-plugin-<name>/<version>,
//	        GetPluginBinaryPath reads <plugins>/<repo>/octosql-plugin-<name>/<version>/octosql-plugin-<name>, and the listing
//	        takes the repository from the first level, the name by stripping exactly that prefix from the second level (never by
//	        searching for dashes) and the version by parsing the third level.
//	DESC    both version lists (installed versions, manifest versions) are sorted descending: less(i, j) = v[i] > v[j].
//	FIRST   both resolution loops walk the list in order and stop at the first version that qualifies: at startup the first
//	        installed version satisfying the database's constraint (plugins matched by their full reference), at install the
//	        first manifest version satisfying the constraint, or the first non-prerelease one when no constraint is given.
func init() {
	register(&Check{ID: "C28", Run: runC28,
		Explanation: "LAYOUT: Install, GetPluginBinaryPath and ListInstalledPlugins agree on <plugins>/<repo>/octosql-plugin-<name>/<version>[/octosql-plugin-<name>]; the listing strips exactly the prefix the writers add and never splits on dashes. " +
			"DESC: installed and manifest version lists are sorted descending (less(i,j) = v[i].GreaterThan(v[j])). " +
			"FIRST: startup picks the first installed version satisfying the constraint for the plugin with the same full reference; install picks the first manifest version satisfying the constraint, or the first without prerelease when none is given; both stop at the first hit.",
		NotDecided:  []string{"semver's own comparison and constraint semantics (Masterminds/semver)", "duplicate repository slugs (the code carries a TODO)"},
		Assumptions: []string{"Masterminds/semver orders versions and evaluates constraints correctly"},
	})
}

func runC28(c *core.Ctx) {
	c.Rule("LOOPCLOSURE", "no function literal that outlives its iteration uses a shared loop variable")
	checkLoopClosures(c, "LOOPCLOSURE", []string{"cmd", "plugins", "datasources", "execution", "logical", "physical", "optimizer", "outputs", "functions", "aggregates", "table_valued_functions", "config", "helpers", "parser", "octosql", "telemetry"})
	c.Rule("LAYOUT", "writer and readers of the plugin directory layout agree")
	c.Rule("DESC", "version lists are sorted descending")
	c.Rule("FIRST", "resolution takes the first qualifying version in that order")
	p := c.Prog
	inst := p.Func("plugins/manager", "(*PluginManager).Install")
	bin := p.Func("plugins/manager", "(*PluginManager).GetPluginBinaryPath")
	list := p.Func("plugins/manager", "(*PluginManager).ListInstalledPlugins")
	if inst == nil || bin == nil || list == nil {
		c.Unknown("LAYOUT", "plugins/manager", 0, "anchor not found")
		return
	}
	c.SawFunc("plugins/manager.(*PluginManager).Install")
	c.SawFunc("plugins/manager.(*PluginManager).GetPluginBinaryPath")
	c.SawFunc("plugins/manager.(*PluginManager).ListInstalledPlugins")

	// ---- LAYOUT
	// Expressions are compared by what they are defined as: a local defined once stands for its definition, a
	// constant for its value, fmt.Sprintf("lit%s", x) for "lit" + x.
	resolve := func(fn *core.FuncRef, e ast.Expr) ast.Expr {
		for i := 0; i < 4; i++ {
			id, ok := core.Unparen(e).(*ast.Ident)
			if !ok {
				break
			}
			v, ok := fn.Info().Uses[id].(*types.Var)
			if !ok {
				break
			}
			def := singleDef(fn.Info(), fn.Decl.Body, v)
			if def == nil {
				break
			}
			e = def
		}
		return core.Unparen(e)
	}
	constStr := func(fn *core.FuncRef, e ast.Expr) (string, bool) {
		if tv, ok := fn.Info().Types[e]; ok && tv.Value != nil && tv.Value.Kind() == constant.String {
			return constant.StringVal(tv.Value), true
		}
		return "", false
	}
	// prefixOf: the constant prefix of a `prefix + x` / Sprintf("prefix%s", x) name, and the text of x
	prefixOf := func(fn *core.FuncRef, e ast.Expr) (string, string, bool) {
		e = resolve(fn, e)
		switch x := e.(type) {
		case *ast.BinaryExpr:
			if x.Op == token.ADD {
				if pre, ok := constStr(fn, x.X); ok {
					return pre, core.ExprStr(x.Y), true
				}
			}
		case *ast.CallExpr:
			if p.CalleeName(fn.Info(), x) == "fmt.Sprintf" && len(x.Args) == 2 {
				if f, ok := constStr(fn, x.Args[0]); ok && strings.HasSuffix(f, "%s") && strings.Count(f, "%") == 1 {
					return strings.TrimSuffix(f, "%s"), core.ExprStr(x.Args[1]), true
				}
			}
		}
		return "", "", false
	}
	// the filepath.Join rooted in the plugin directory, with `want` levels
	joinCall := func(fn *core.FuncRef, want int) *ast.CallExpr {
		var out *ast.CallExpr
		ast.Inspect(fn.Decl.Body, func(n ast.Node) bool {
			if call, ok := n.(*ast.CallExpr); ok && p.CalleeName(fn.Info(), call) == "path/filepath.Join" && len(call.Args) == want && core.ExprStr(resolve(fn, call.Args[0])) == "getPluginDir()" {
				out = call
			}
			return true
		})
		return out
	}
	wJoin, rJoin := joinCall(inst, 4), joinCall(bin, 5)
	wPrefix, rPrefix := "", ""
	wPos := inst.Decl.Pos()
	var w, r []string
	okW, okR := false, false
	if wJoin != nil {
		wPos = wJoin.Pos()
		for _, a := range wJoin.Args {
			w = append(w, core.ExprStr(resolve(inst, a)))
		}
		pre, _, okP := prefixOf(inst, wJoin.Args[2])
		wPrefix = pre
		_, lit1 := constStr(inst, wJoin.Args[1])
		okW = okP && !lit1 && strings.HasSuffix(w[3], ".String()")
	}
	if rJoin != nil {
		for _, a := range rJoin.Args {
			r = append(r, core.ExprStr(resolve(bin, a)))
		}
		pre, _, okP := prefixOf(bin, rJoin.Args[2])
		rPrefix = pre
		okR = okP && strings.HasSuffix(r[1], ".Repository") && r[2] == r[4] && strings.HasSuffix(r[3], ".String()")
	}
	// listing: Name: strings.TrimPrefix(<entry>.Name(), <prefix>), in the function or a helper
	lPrefix, lHow := "", ""
	repoFromOuter, versionParsed := false, false
	for _, h := range helperClosure(p, list) {
		h := h
		ast.Inspect(h.Decl.Body, func(n ast.Node) bool {
			switch x := n.(type) {
			case *ast.KeyValueExpr:
				switch core.ExprStr(x.Key) {
				case "Name":
					v := resolve(h, x.Value)
					lHow = core.ExprStr(v)
					if call, ok := v.(*ast.CallExpr); ok && p.CalleeName(h.Info(), call) == "strings.TrimPrefix" && len(call.Args) == 2 {
						if pre, ok := constStr(h, call.Args[1]); ok && strings.HasSuffix(core.ExprStr(resolve(h, call.Args[0])), ".Name()") {
							lPrefix = pre
						}
					}
				case "Repository":
					// listing levels: Repository from the outer directory entry
					if strings.HasSuffix(core.ExprStr(resolve(h, x.Value)), ".Name()") {
						repoFromOuter = true
					}
				}
			case *ast.CallExpr:
				// … and the version parsed from the innermost
				if strings.HasSuffix(p.CalleeName(h.Info(), x), "semver.NewVersion") && len(x.Args) == 1 && strings.HasSuffix(core.ExprStr(resolve(h, x.Args[0])), ".Name()") {
					versionParsed = true
				}
			}
			return true
		})
	}
	c.Decide(wPrefix != "" && wPrefix == rPrefix && wPrefix == lPrefix, "LAYOUT", "plugins/manager/plugin directory name", wPos, 3,
		fmt.Sprintf("install, binary lookup and listing all use the prefix %q", wPrefix),
		fmt.Sprintf("the plugin directory is written as %q+name, looked up as %q+name and listed by %s (prefix %q): the listing must strip exactly the prefix the writers add — any dash-based split loses part of a name that contains dashes", wPrefix, rPrefix, lHow, lPrefix))
	c.Decide(okW && okR && repoFromOuter && versionParsed, "LAYOUT", "plugins/manager/path levels", wPos, 4, "<plugins>/<repo>/<prefix+name>/<version>[/<prefix+name>] in all three",
		fmt.Sprintf("install path %v, binary path %v, listing (repository from level 1: %v, version parsed from level 3: %v) must describe the same tree", w, r, repoFromOuter, versionParsed))

	// ---- DESC
	nSort := 0
	for _, spec := range [][2]string{{"plugins/manager", "(*PluginManager).ListInstalledPlugins"}, {"plugins/repository", "GetManifest"}} {
		fn := p.Func(spec[0], spec[1])
		key := spec[0] + "." + spec[1]
		if fn == nil {
			c.Unknown("DESC", key, 0, "anchor not found")
			continue
		}
		c.SawFunc(key)
		found := false
		// the sort may sit in a helper; the less function may be a literal, a local or a named function
		for _, h := range helperClosure(p, fn) {
			h := h
			ast.Inspect(h.Decl.Body, func(n ast.Node) bool {
				call, ok := n.(*ast.CallExpr)
				if !ok || len(call.Args) != 2 {
					return true
				}
				if cn := p.CalleeName(h.Info(), call); cn != "sort.Slice" && cn != "sort.SliceStable" {
					return true
				}
				lit := funcValueLit(p, h, call.Args[1])
				if lit == nil {
					return true
				}
				found = true
				nSort++
				var a, b string
				for _, f := range lit.Type.Params.List {
					for _, nm := range f.Names {
						if a == "" {
							a = nm.Name
						} else if b == "" {
							b = nm.Name
						}
					}
				}
				slice := core.ExprStr(call.Args[0])
				// less(i, j) is interpreted: its result must be "element i is greater than element j"
				in := newInterp(p, h)
				in.Hooks.Call = func(st *absint.State, call *ast.CallExpr, callee string, recv absint.Val, args []absint.Val) (absint.Val, bool) {
					if len(args) != 1 {
						return nil, false
					}
					switch {
					case strings.HasSuffix(callee, "semver.(*Version).GreaterThan"):
						return absint.S("GT(" + recv.Canon() + "," + args[0].Canon() + ")"), true
					case strings.HasSuffix(callee, "semver.(*Version).LessThan"):
						return absint.S("GT(" + args[0].Canon() + "," + recv.Canon() + ")"), true
					}
					return nil, false
				}
				outs, err := runLit(in, lit, nil, "")
				want := "GT(" + slice + "[" + a + "].Number," + slice + "[" + b + "].Number)"
				good := err == nil && len(outs) > 0
				got := ""
				for _, o := range outs {
					if o.Kind != "return" || len(o.Values) != 1 || o.Values[0].Canon() != want {
						good = false
						got = o.String()
					}
				}
				c.Decide(good, "DESC", key+"/sort", call.Pos(), 1, "less(i, j) = v[i].Number.GreaterThan(v[j].Number)",
					"the version list must be sorted descending — less(i, j) = v[i].Number.GreaterThan(v[j].Number) — because the resolution loops take the first qualifying element: "+got)
				return true
			})
		}
		if !found {
			c.Bad("DESC", key+"/sort", fn.Decl.Pos(), 1, "the version list is not sorted: the resolution loops take the first qualifying element, which must be the highest")
		}
	}

	// ---- FIRST: install
	checkFirstMatchLoop(c, inst, "plugins/manager.(*PluginManager).Install", true)
	// ---- FIRST: startup
	root := p.Func("cmd", "init$rootCmd")
	if root == nil {
		for _, fr := range p.AllFuncs("cmd") {
			if strings.Contains(core.FullStr(fr.Decl.Body), "resolvedVersions[") {
				root = fr
			}
		}
	}
	if root == nil {
		c.Unknown("FIRST", "cmd/root.go version resolution", 0, "anchor not found")
		return
	}
	c.SawFunc(p.FName(root))
	checkFirstMatchLoop(c, root, "cmd/root.go startup", false)
	// plugins matched by full reference: the body of the loop over the installed plugins is interpreted with the
	// plugin's reference equal / not equal to the database's type — only a plugin with the same full reference has
	// its versions looked at
	matchBad, matched := "", 0
	for _, vl := range versionLoops(p, root) {
		if vl.outer == nil || vl.outer.Value == nil {
			matchBad = "the version loop is not inside a loop over the installed plugins"
			continue
		}
		pl := core.ExprStr(vl.outer.Value)
		for _, eq := range []bool{true, false} {
			eq := eq
			in := newInterp(p, vl.fn)
			in.MaxPaths = 2000
			in.Hooks.Cond = func(st *absint.State, atom string) (bool, bool) {
				if strings.Contains(atom, pl+".Reference") && strings.Contains(atom, " == ") {
					return eq, true
				}
				return false, false
			}
			in.Hooks.Loop = func(st *absint.State, loop ast.Stmt) *absint.LoopSpec {
				return &absint.LoopSpec{Cases: []string{"V"}, MaxIter: 1, MinIter: 1, RefStep: func(ref, cs string) string { return "" }}
			}
			in.Hooks.Call = chainCall(func(st *absint.State, call *ast.CallExpr, callee string, recv absint.Val, args []absint.Val) (absint.Val, bool) {
				if strings.HasSuffix(callee, "semver.Constraints.Check") || strings.HasSuffix(callee, "semver.(*Constraints).Check") {
					st.Emit("CHECK", call.Pos())
				}
				return nil, false
			}, errorfHook)
			outs, err := in.Run(&ast.FuncType{Params: &ast.FieldList{}, Results: vl.results}, nil, vl.outer.Body, nil, "")
			if err != nil {
				matchBad = err.Error()
				continue
			}
			looked := 0
			for _, o := range outs {
				matched++
				for _, e := range o.Events {
					if e.Name == "CHECK" {
						looked++
						break
					}
				}
			}
			if !eq && looked > 0 {
				matchBad = "the versions of a plugin with another reference (repository/name) are considered for the database"
			}
			if eq && looked == 0 {
				matchBad = "the versions of the plugin with the database's own reference are never looked at"
			}
		}
	}
	if matched == 0 && matchBad == "" {
		matchBad = "no loop over the installed plugins around the version loop"
	}
	c.Decide(matchBad == "", "FIRST", "cmd/root.go startup/plugin match", root.Decl.Pos(), matched, "installed plugin matched by its full reference (repository and name)",
		"a configured database must be matched to the installed plugin with the same full reference (repository/name), skipping all others: "+matchBad)
}

// versionLoop: a range loop over a slice of plugin versions (a struct type named Version with a Number field),
// found in fn or a helper it reaches.
type versionLoop struct {
	fn      *core.FuncRef
	loop    *ast.RangeStmt
	results *ast.FieldList // of the function (literal) the loop sits in
	elem    string         // the element expression: the value variable, or list[key]
	outer   *ast.RangeStmt // the enclosing range loop over installed plugins, if any
}

func versionLoops(p *core.Program, fn *core.FuncRef) []versionLoop {
	var out []versionLoop
	isNamedSlice := func(t types.Type, name string) bool {
		if t == nil {
			return false
		}
		sl, ok := t.Underlying().(*types.Slice)
		if !ok {
			return false
		}
		n, ok := sl.Elem().(*types.Named)
		return ok && n.Obj().Name() == name && n.Obj().Pkg() != nil && strings.Contains(n.Obj().Pkg().Path(), "/plugins/")
	}
	for _, h := range helperClosure(p, fn) {
		h := h
		info := h.Info()
		core.WalkStack(h.Decl.Body, func(n ast.Node, stack []ast.Node) bool {
			rs, ok := n.(*ast.RangeStmt)
			if !ok || !isNamedSlice(info.TypeOf(rs.X), "Version") {
				return true
			}
			vl := versionLoop{fn: h, loop: rs, results: h.Decl.Type.Results}
			if lit := core.InnermostFuncLit(stack); lit != nil {
				vl.results = lit.Type.Results
			}
			switch {
			case rs.Value != nil && core.ExprStr(rs.Value) != "_":
				vl.elem = core.ExprStr(rs.Value)
			case rs.Key != nil && core.ExprStr(rs.Key) != "_":
				vl.elem = core.ExprStr(rs.X) + "[" + core.ExprStr(rs.Key) + "]"
			}
			for i := len(stack) - 1; i >= 0; i-- {
				if _, isLit := stack[i].(*ast.FuncLit); isLit {
					break
				}
				if o, ok := stack[i].(*ast.RangeStmt); ok && isNamedSlice(info.TypeOf(o.X), "PluginMetadata") {
					vl.outer = o
					break
				}
			}
			out = append(out, vl)
			return true
		})
	}
	return out
}

func mentions(canon, name string) bool {
	return regexp.MustCompile(`(^|[^A-Za-z0-9_.])` + regexp.QuoteMeta(name) + `($|[^A-Za-z0-9_])`).MatchString(canon)
}

// checkFirstMatchLoop interprets one iteration of the version loop for every answer of the qualifying tests:
// a qualifying version is taken (stored outside the loop or returned) and the loop is left at once; a version
// that does not qualify is not taken and the loop goes on. Together with the descending order (DESC) that is
// "the highest qualifying version". For Install, qualifying means: the constraint accepts it, or — without a
// constraint — it has no prerelease tag.
func checkFirstMatchLoop(c *core.Ctx, fn *core.FuncRef, key string, install bool) {
	p := c.Prog
	loops := versionLoops(p, fn)
	if len(loops) == 0 {
		c.Unknown("FIRST", key, fn.Decl.Pos(), "no loop over a list of plugin versions")
		return
	}
	for li, vl := range loops {
		lkey := key
		if li > 0 {
			lkey = fmt.Sprintf("%s#%d", key, li+1)
		}
		if vl.elem == "" {
			c.Bad("FIRST", lkey, vl.loop.Pos(), 1, "the loop must walk the versions in list order")
			continue
		}
		c.SawFunc(p.FName(vl.fn))
		lo, hi := vl.loop.Body.Pos(), vl.loop.Body.End()
		type scenario struct{ constraintNil, check, prerelEmpty bool }
		run := func(sc *scenario, checkRecv *string, checkArg *string) ([]*absint.Outcome, error) {
			in := newInterp(p, vl.fn)
			in.MaxPaths = 2000
			in.Hooks.Store = func(st *absint.State, obj types.Object, v absint.Val) {
				if (obj.Pos() < lo || obj.Pos() > hi) && v != nil && mentions(v.Canon(), vl.elem) {
					st.Emit("TAKE", token.NoPos, v)
				}
			}
			in.Hooks.Cond = func(st *absint.State, atom string) (bool, bool) {
				if sc != nil && *checkRecv != "" && (atom == "("+*checkRecv+" == nil)" || atom == "(nil == "+*checkRecv+")") {
					return sc.constraintNil, true
				}
				return false, false
			}
			in.Hooks.Call = chainCall(func(st *absint.State, call *ast.CallExpr, callee string, recv absint.Val, args []absint.Val) (absint.Val, bool) {
				switch {
				case (strings.HasSuffix(callee, "semver.(*Constraints).Check") || strings.HasSuffix(callee, "semver.Constraints.Check")) && len(args) == 1:
					*checkRecv, *checkArg = recv.Canon(), args[0].Canon()
					st.Emit("CHECK", call.Pos(), recv, args[0])
					if sc != nil {
						return absint.Bool(sc.check), true
					}
				case strings.HasSuffix(callee, "semver.Version.Prerelease") || strings.HasSuffix(callee, "semver.(*Version).Prerelease"):
					if sc != nil {
						if sc.prerelEmpty {
							return absint.Str(""), true
						}
						return absint.Str("rc.1"), true
					}
				}
				return nil, false
			}, errorfHook)
			return in.Run(&ast.FuncType{Params: &ast.FieldList{}, Results: vl.results}, nil, vl.loop.Body, nil, "")
		}
		recvC, argC := "", ""
		if _, err := run(nil, &recvC, &argC); err != nil {
			c.Unknown("FIRST", lkey, vl.loop.Pos(), err.Error())
			continue
		}
		if recvC == "" {
			c.Bad("FIRST", lkey, vl.loop.Pos(), 1, "a version is taken without testing it against the constraint (constraint.Check(version))")
			continue
		}
		bad := ""
		if argC != vl.elem+".Number" {
			bad = "the constraint is checked against " + argC + ", not against the version at hand (" + vl.elem + ".Number)"
		}
		var scs []scenario
		for _, ck := range []bool{true, false} {
			for _, pe := range []bool{true, false} {
				scs = append(scs, scenario{false, ck, pe})
				if install {
					scs = append(scs, scenario{true, ck, pe})
				}
			}
		}
		paths := 0
		for _, sc := range scs {
			sc := sc
			if bad != "" {
				break
			}
			r2, a2 := recvC, argC
			outs, err := run(&sc, &r2, &a2)
			if err != nil {
				bad = err.Error()
				break
			}
			qualifies := sc.check
			if sc.constraintNil {
				qualifies = sc.prerelEmpty
			}
			what := fmt.Sprintf("constraint given=%v, accepted=%v, prerelease tag=%v", !sc.constraintNil, sc.check, !sc.prerelEmpty)
			for _, o := range outs {
				paths++
				taken, checked := false, false
				for _, e := range o.Events {
					switch {
					case e.Name == "TAKE":
						taken = true
					case e.Name == "CHECK":
						checked = true
					case strings.HasPrefix(e.Name, "store ") && len(e.Args) == 1 && mentions(e.Args[0].Canon(), vl.elem):
						taken = true
					}
				}
				for _, v := range o.Values {
					if o.Kind == "return" && v != nil && mentions(v.Canon(), vl.elem) {
						taken = true
					}
				}
				leaves := o.Kind == "break" || o.Kind == "return" || (o.Kind == "continue" && o.Label != "")
				goesOn := o.Kind == "fallthrough" || (o.Kind == "continue" && o.Label == "")
				switch {
				case sc.constraintNil && checked:
					bad = "Check is called on a nil constraint (" + what + ")"
				case qualifies && !taken:
					bad = "a qualifying version is not taken (" + what + ")"
				case qualifies && !leaves:
					bad = "after taking a version the loop must be left at once: otherwise a later, lower version replaces the first match (" + what + ")"
				case !qualifies && taken:
					bad = "a version that does not qualify is taken (" + what + ")"
				case !qualifies && !goesOn && o.Kind != "return":
					bad = "the search stops at a version that does not qualify (" + what + "): " + o.Kind
				case !qualifies && o.Kind == "return" && !(len(o.Values) > 0 && isNonNilErr(o.Values[len(o.Values)-1])):
					bad = "the search ends at a version that does not qualify (" + what + ")"
				}
			}
		}
		c.Decide(bad == "", "FIRST", lkey, vl.loop.Pos(), paths, "a qualifying version is taken and the loop left; any other version is passed over", bad)
	}
}
