package props

import (
	"fmt"
	"go/ast"
	"go/token"
	"strings"

	"octoverif/core"
)

// C28 — installed plugins are discovered and versions resolved correctly.
//
//	LAYOUT  the three places that know the on-disk layout agree: Install writes <plugins>/<repo>/octosql-plugin-<name>/<version>,
//	        GetPluginBinaryPath reads <plugins>/<repo>/octosql-plugin-<name>/<version>/octosql-plugin-<name>, and the listing
//	        takes the repository from the first level, the name by stripping exactly that prefix from the second level (never by
//	        searching for dashes) and the version by parsing the third level.
//	DESC    both version lists (installed versions, manifest versions) are sorted descending: less(i, j) = v[i] > v[j].
//	FIRST   both resolution loops walk the list in order and stop at the first version that qualifies: at startup the first
//	        installed version satisfying the database's constraint (plugins matched by their full reference), at install the
//	        first manifest version satisfying the constraint, or the first non-prerelease one when no constraint is given.
func init() {
	register(&Check{ID: "C28", Run: runC28,
		Explanation: "LAYOUT: Install, GetPluginBinaryPath and ListInstalledPlugins agree on <plugins>/<repo>/octosql-plugin-<name>/<version>[/octosql-plugin-<name>]; the listing strips exactly the prefix the writers add and never splits on dashes. " +
			"DESC: installed and manifest version lists are sorted descending (less(i,j) = v[i].GreaterThan(v[j])). " +
			"FIRST: startup picks the first installed version satisfying the constraint for the plugin with the same full reference; install picks the first manifest version satisfying the constraint, or the first without prerelease when none is given; both stop at the first hit.",
		NotDecided:  []string{"semver's own comparison and constraint semantics (Masterminds/semver)", "duplicate repository slugs (the code carries a TODO)"},
		Assumptions: []string{"Masterminds/semver orders versions and evaluates constraints correctly"},
	})
}

func runC28(c *core.Ctx) {
	c.Rule("LOOPCLOSURE", "no function literal that outlives its iteration uses a shared loop variable")
	checkLoopClosures(c, "LOOPCLOSURE", []string{"cmd", "plugins", "datasources", "execution", "logical", "physical", "optimizer", "outputs", "functions", "aggregates", "table_valued_functions", "config", "helpers", "parser", "octosql", "telemetry"})
	c.Rule("LAYOUT", "writer and readers of the plugin directory layout agree")
	c.Rule("DESC", "version lists are sorted descending")
	c.Rule("FIRST", "resolution takes the first qualifying version in that order")
	p := c.Prog
	inst := p.Func("plugins/manager", "(*PluginManager).Install")
	bin := p.Func("plugins/manager", "(*PluginManager).GetPluginBinaryPath")
	list := p.Func("plugins/manager", "(*PluginManager).ListInstalledPlugins")
	if inst == nil || bin == nil || list == nil {
		c.Unknown("LAYOUT", "plugins/manager", 0, "anchor not found")
		return
	}
	c.SawFunc("plugins/manager.(*PluginManager).Install")
	c.SawFunc("plugins/manager.(*PluginManager).GetPluginBinaryPath")
	c.SawFunc("plugins/manager.(*PluginManager).ListInstalledPlugins")

	// ---- LAYOUT
	sprintfPrefix := func(fn *core.FuncRef) (string, token.Pos) {
		out, pos := "", token.NoPos
		ast.Inspect(fn.Decl.Body, func(n ast.Node) bool {
			if call, ok := n.(*ast.CallExpr); ok && p.CalleeName(fn.Info(), call) == "fmt.Sprintf" && len(call.Args) == 2 {
				if bl, ok := call.Args[0].(*ast.BasicLit); ok && strings.HasSuffix(bl.Value, `%s"`) && strings.Contains(bl.Value, "plugin") {
					out, pos = strings.TrimSuffix(strings.Trim(bl.Value, `"`), "%s"), call.Pos()
				}
			}
			return true
		})
		return out, pos
	}
	wPrefix, wPos := sprintfPrefix(inst)
	rPrefix, _ := sprintfPrefix(bin)
	// listing: Name: strings.TrimPrefix(dir.Name(), "<prefix>")
	lPrefix, lHow := "", ""
	ast.Inspect(list.Decl.Body, func(n ast.Node) bool {
		kv, ok := n.(*ast.KeyValueExpr)
		if !ok || core.ExprStr(kv.Key) != "Name" {
			return true
		}
		lHow = core.ExprStr(kv.Value)
		if call, ok := kv.Value.(*ast.CallExpr); ok && p.CalleeName(list.Info(), call) == "strings.TrimPrefix" && len(call.Args) == 2 {
			if bl, ok := call.Args[1].(*ast.BasicLit); ok && strings.HasSuffix(core.ExprStr(call.Args[0]), ".Name()") {
				lPrefix = strings.Trim(bl.Value, `"`)
			}
		}
		return true
	})
	c.Decide(wPrefix != "" && wPrefix == rPrefix && wPrefix == lPrefix, "LAYOUT", "plugins/manager/plugin directory name", wPos, 3,
		fmt.Sprintf("install, binary lookup and listing all use the prefix %q", wPrefix),
		fmt.Sprintf("the plugin directory is written as %q+name, looked up as %q+name and listed by %s (prefix %q): the listing must strip exactly the prefix the writers add — any dash-based split loses part of a name that contains dashes", wPrefix, rPrefix, lHow, lPrefix))
	// path shapes
	joinArgs := func(fn *core.FuncRef, want int) []string {
		var out []string
		ast.Inspect(fn.Decl.Body, func(n ast.Node) bool {
			if call, ok := n.(*ast.CallExpr); ok && p.CalleeName(fn.Info(), call) == "path/filepath.Join" && len(call.Args) == want && core.ExprStr(call.Args[0]) == "getPluginDir()" {
				out = nil
				for _, a := range call.Args {
					out = append(out, core.ExprStr(a))
				}
			}
			return true
		})
		return out
	}
	w := joinArgs(inst, 4)
	r := joinArgs(bin, 5)
	okW := len(w) == 4 && w[1] == "repoSlug" && strings.HasPrefix(w[2], "fmt.Sprintf(") && strings.HasSuffix(w[3], ".String()")
	okR := len(r) == 5 && strings.HasSuffix(r[1], ".Repository") && r[2] == r[4] && strings.HasSuffix(r[3], ".String()")
	// listing levels: Repository from the outer directory entry, version parsed from the innermost
	repoFromOuter, versionParsed := false, false
	ast.Inspect(list.Decl.Body, func(n ast.Node) bool {
		if kv, ok := n.(*ast.KeyValueExpr); ok && core.ExprStr(kv.Key) == "Repository" && strings.HasSuffix(core.ExprStr(kv.Value), ".Name()") {
			repoFromOuter = true
		}
		if call, ok := n.(*ast.CallExpr); ok && strings.HasSuffix(p.CalleeName(list.Info(), call), "semver.NewVersion") && strings.HasSuffix(core.ExprStr(call.Args[0]), ".Name()") {
			versionParsed = true
		}
		return true
	})
	c.Decide(okW && okR && repoFromOuter && versionParsed, "LAYOUT", "plugins/manager/path levels", wPos, 4, "<plugins>/<repo>/<prefix+name>/<version>[/<prefix+name>] in all three",
		fmt.Sprintf("install path %v, binary path %v, listing (repository from level 1: %v, version parsed from level 3: %v) must describe the same tree", w, r, repoFromOuter, versionParsed))

	// ---- DESC
	nSort := 0
	for _, spec := range [][2]string{{"plugins/manager", "(*PluginManager).ListInstalledPlugins"}, {"plugins/repository", "GetManifest"}} {
		fn := p.Func(spec[0], spec[1])
		key := spec[0] + "." + spec[1]
		if fn == nil {
			c.Unknown("DESC", key, 0, "anchor not found")
			continue
		}
		c.SawFunc(key)
		found := false
		ast.Inspect(fn.Decl.Body, func(n ast.Node) bool {
			call, ok := n.(*ast.CallExpr)
			if !ok || p.CalleeName(fn.Info(), call) != "sort.Slice" || len(call.Args) != 2 {
				return true
			}
			lit, ok := call.Args[1].(*ast.FuncLit)
			if !ok || len(lit.Body.List) != 1 {
				return true
			}
			found = true
			nSort++
			var a, b string
			ps := lit.Type.Params.List
			if len(ps) == 1 && len(ps[0].Names) == 2 {
				a, b = ps[0].Names[0].Name, ps[0].Names[1].Name
			}
			ret, _ := lit.Body.List[0].(*ast.ReturnStmt)
			good := false
			if ret != nil && len(ret.Results) == 1 {
				if gc, ok := ret.Results[0].(*ast.CallExpr); ok {
					if se, ok := gc.Fun.(*ast.SelectorExpr); ok && se.Sel.Name == "GreaterThan" && len(gc.Args) == 1 {
						recv, arg := core.ExprStr(se.X), core.ExprStr(gc.Args[0])
						slice := core.ExprStr(call.Args[0])
						good = recv == slice+"["+a+"].Number" && arg == slice+"["+b+"].Number"
					}
				}
			}
			c.Decide(good, "DESC", key+"/sort", call.Pos(), 1, "less(i, j) = v[i].Number.GreaterThan(v[j].Number)",
				"the version list must be sorted descending — less(i, j) = v[i].Number.GreaterThan(v[j].Number) — because the resolution loops take the first qualifying element: "+core.ExprStr(lit.Body.List[0]))
			return true
		})
		if !found {
			c.Bad("DESC", key+"/sort", fn.Decl.Pos(), 1, "the version list is not sorted: the resolution loops take the first qualifying element, which must be the highest")
		}
	}

	// ---- FIRST: install
	checkFirstMatchLoop(c, inst, "plugins/manager.(*PluginManager).Install", "manifest.Versions", true)
	// ---- FIRST: startup
	root := p.Func("cmd", "init$rootCmd")
	if root == nil {
		for _, fr := range p.AllFuncs("cmd") {
			if strings.Contains(core.FullStr(fr.Decl.Body), "resolvedVersions[") {
				root = fr
			}
		}
	}
	if root == nil {
		c.Unknown("FIRST", "cmd/root.go version resolution", 0, "anchor not found")
		return
	}
	c.SawFunc(p.FName(root))
	checkFirstMatchLoop(c, root, "cmd/root.go startup", "plugin.Versions", false)
	// plugins matched by full reference
	refOK := false
	ast.Inspect(root.Decl.Body, func(n ast.Node) bool {
		if is, ok := n.(*ast.IfStmt); ok {
			cs := core.ExprStr(is.Cond)
			if strings.Contains(cs, ".Reference != ") && strings.HasSuffix(cs, ".Type") {
				for _, s := range is.Body.List {
					if b, ok := s.(*ast.BranchStmt); ok && b.Tok == token.CONTINUE {
						refOK = true
					}
				}
			}
		}
		return true
	})
	c.Decide(refOK, "FIRST", "cmd/root.go startup/plugin match", root.Decl.Pos(), 1, "installed plugin matched by its full reference (repository and name)",
		"a configured database must be matched to the installed plugin with the same full reference (repository/name), skipping all others")
}

// checkFirstMatchLoop: `for _, v := range <list> { … if <qualifies> { <take v>; break/continue outer } }`.
func checkFirstMatchLoop(c *core.Ctx, fn *core.FuncRef, key, list string, install bool) {
	_ = c.Prog
	var loop *ast.RangeStmt
	ast.Inspect(fn.Decl.Body, func(n ast.Node) bool {
		if rs, ok := n.(*ast.RangeStmt); ok && core.ExprStr(rs.X) == list {
			loop = rs
		}
		return true
	})
	if loop == nil {
		c.Unknown("FIRST", key, fn.Decl.Pos(), "no loop over "+list)
		return
	}
	if loop.Value == nil {
		c.Bad("FIRST", key, loop.Pos(), 1, "the loop must walk the versions in list order")
		return
	}
	v := core.ExprStr(loop.Value)
	// every statement that takes a version is directly followed by leaving the loop, and is guarded by a qualifying test
	takes, leaves := 0, 0
	guards := map[string]bool{}
	var walk func(list []ast.Stmt, conds []string)
	walk = func(stmts []ast.Stmt, conds []string) {
		for i, s := range stmts {
			switch x := s.(type) {
			case *ast.IfStmt:
				walk(x.Body.List, append(append([]string{}, conds...), core.ExprStr(x.Cond)))
				if x.Else != nil {
					switch e := x.Else.(type) {
					case *ast.BlockStmt:
						walk(e.List, append(append([]string{}, conds...), "!("+core.ExprStr(x.Cond)+")"))
					case *ast.IfStmt:
						walk([]ast.Stmt{e}, append(append([]string{}, conds...), "!("+core.ExprStr(x.Cond)+")"))
					}
				}
			case *ast.AssignStmt:
				r := core.ExprStr(x.Rhs[0])
				if r == "&"+v || r == v+".Number" || r == v {
					takes++
					for _, cd := range conds {
						guards[cd] = true
					}
					if i+1 < len(stmts) {
						if b, ok := stmts[i+1].(*ast.BranchStmt); ok && (b.Tok == token.BREAK || (b.Tok == token.CONTINUE && b.Label != nil)) {
							leaves++
						}
					}
				}
			}
		}
	}
	walk(loop.Body.List, nil)
	bad := ""
	if takes == 0 {
		bad = "no version is taken inside the loop"
	} else if takes != leaves {
		bad = fmt.Sprintf("after taking a version the loop must be left at once (%d takes, %d of them followed by break/continue-outer): otherwise a later, lower version replaces the first match", takes, leaves)
	}
	hasCheck, hasPre, hasNilTest := false, false, false
	for g := range guards {
		if strings.Contains(g, ".Check("+v+".Number)") {
			hasCheck = true
		}
		if strings.Contains(g, v+".Number.Prerelease() == \"\"") {
			hasPre = true
		}
		if strings.Contains(g, "constraint != nil") {
			hasNilTest = true
		}
	}
	if bad == "" && !hasCheck {
		bad = "a version is taken without testing it against the constraint (constraint.Check(version))"
	}
	if bad == "" && install && (!hasPre || !hasNilTest) {
		bad = fmt.Sprintf("without a constraint the first version without a prerelease tag must be taken (prerelease test: %v, constraint-nil test: %v)", hasPre, hasNilTest)
	}
	c.Decide(bad == "", "FIRST", key, loop.Pos(), takes, "first qualifying version in list order, then leave the loop", bad)
}
