package props

import (
	"fmt"
	"go/ast"
	"go/token"
	"go/types"
	"path/filepath"
	"sort"
	"strings"

	"octoverif/core"
)

// grammarPopulated lists "Type.Field" → position for every AST field the generated parser (sql.go) populates.
func grammarPopulated(p *core.Program) map[string]token.Pos {
	sp := p.Pkg("parser/sqlparser")
	out := map[string]token.Pos{}
	if sp == nil {
		return out
	}
	info := sp.TypesInfo
	for _, f := range sp.Syntax {
		if filepath.Base(sp.Fset.File(f.Package).Name()) != "sql.go" {
			continue
		}
		ast.Inspect(f, func(x ast.Node) bool {
			switch v := x.(type) {
			case *ast.CompositeLit:
				n, ok := info.TypeOf(v).(*types.Named)
				if !ok {
					return true
				}
				if _, ok := n.Underlying().(*types.Struct); !ok {
					return true
				}
				for _, el := range v.Elts {
					if kv, ok := el.(*ast.KeyValueExpr); ok {
						k := n.Obj().Name() + "." + kv.Key.(*ast.Ident).Name
						if _, ok := out[k]; !ok {
							out[k] = kv.Pos()
						}
					}
				}
			case *ast.AssignStmt:
				for _, l := range v.Lhs {
					se, ok := l.(*ast.SelectorExpr)
					if !ok {
						continue
					}
					sel := info.Selections[se]
					if sel == nil || sel.Kind() != types.FieldVal {
						continue
					}
					rt := sel.Recv()
					if pt, ok := rt.(*types.Pointer); ok {
						rt = pt.Elem()
					}
					if n, ok := rt.(*types.Named); ok {
						k := n.Obj().Name() + "." + se.Sel.Name
						if _, ok := out[k]; !ok {
							out[k] = se.Pos()
						}
					}
				}
			}
			return true
		})
	}
	return out
}

// parseCovNoEffect: grammar-populated fields that octosql's parser may ignore because they cannot change a result.
var parseCovNoEffect = map[string]string{
	"Select.Comments":        "SQL comments carry no semantics",
	"Select.Cache":           "SQL_CACHE / SQL_NO_CACHE are MySQL execution hints",
	"Select.Hints":           "STRAIGHT_JOIN is a join-order hint; the result is the same join",
	"Select.Lock":            "FOR UPDATE / LOCK IN SHARE MODE concern locking in a read-write store; octosql only reads",
	"AliasedTableExpr.Hints": "USE/IGNORE/FORCE INDEX are index hints",
}

// checkParserCoverage (PARSECOV): for every sqlparser node type that octosql's own parser (parser/parser.go) handles,
// every field the grammar populates is read by that parser — consumed or explicitly rejected.  A populated field that
// is never looked at is syntax the user may write and the engine silently ignores (HAVING, OFFSET, USING, ESCAPE …):
// the query runs and returns rows the SQL text does not describe.
func checkParserCoverage(c *core.Ctx, rule string) {
	p := c.Prog
	populated := grammarPopulated(p)
	pp := p.Pkg("parser")
	if pp == nil || len(populated) < 200 {
		c.Unknown(rule, "parser", 0, fmt.Sprintf("parser package or grammar-populated fields not found (%d fields)", len(populated)))
		return
	}
	pinfo := pp.TypesInfo
	read := map[string]bool{}
	handled := map[string]bool{}
	for _, f := range pp.Syntax {
		ast.Inspect(f, func(x ast.Node) bool {
			v, ok := x.(*ast.SelectorExpr)
			if !ok {
				return true
			}
			sel := pinfo.Selections[v]
			if sel == nil || sel.Kind() != types.FieldVal {
				return true
			}
			rt := sel.Recv()
			if pt, ok := rt.(*types.Pointer); ok {
				rt = pt.Elem()
			}
			if n, ok := rt.(*types.Named); ok && n.Obj().Pkg() != nil && strings.HasSuffix(n.Obj().Pkg().Path(), "/sqlparser") {
				read[n.Obj().Name()+"."+v.Sel.Name] = true
				handled[n.Obj().Name()] = true
			}
			return true
		})
	}
	var keys []string
	for k := range populated {
		if handled[strings.SplitN(k, ".", 2)[0]] {
			keys = append(keys, k)
		}
	}
	sort.Strings(keys)
	for _, k := range keys {
		if why, ok := parseCovNoEffect[k]; ok && !read[k] {
			c.OK(rule, k, populated[k], 1, "ignored, cannot change a result: "+why)
			continue
		}
		c.Decide(read[k], rule, k, populated[k], 1, "read by octosql's parser",
			fmt.Sprintf("the grammar accepts and stores %s (%s), but parser/parser.go never reads it: the clause is silently ignored and the query returns rows its text does not describe; consume it or reject it with an error", k, p.Pos(populated[k])))
	}
	c.Floor(rule, 60, "the parser handles dozens of populated fields of Select, joins, expressions, limits, triggers …")
}

// checkParserPanics (PARSEPAN): parser/parser.go runs before the typecheck recover, so it must not panic on input the
// grammar accepts: no single-value type assertion on a sqlparser value, and no constant index into a sqlparser slice
// without a length test on that slice in the same function before it.
func checkParserPanics(c *core.Ctx, rule string) {
	p := c.Prog
	n := 0
	for _, fr := range p.AllFuncs("parser") {
		if core.Rel(fr.Pkg) != "parser" {
			continue
		}
		info := fr.Info()
		name := p.FName(fr)
		ord := map[string]int{}
		core.WalkStack(fr.Decl.Body, func(nd ast.Node, stack []ast.Node) bool {
			switch x := nd.(type) {
			case *ast.TypeAssertExpr:
				if x.Type == nil {
					return true // type switch
				}
				xt := info.TypeOf(x.X)
				if xt == nil || !strings.Contains(xt.String(), "sqlparser.") {
					return true
				}
				// comma-ok form?
				commaOk := false
				if len(stack) > 0 {
					switch par := stack[len(stack)-1].(type) {
					case *ast.AssignStmt:
						commaOk = len(par.Lhs) == 2 && len(par.Rhs) == 1 && par.Rhs[0] == ast.Expr(x)
					case *ast.ValueSpec:
						commaOk = len(par.Names) == 2
					}
				}
				n++
				key := fmt.Sprintf("%s/%s", name, core.ExprStr(x))
				ord[key]++
				if ord[key] > 1 {
					key += fmt.Sprintf("#%d", ord[key])
				}
				c.Decide(commaOk, rule, key, x.Pos(), 1, "checked type assertion",
					fmt.Sprintf("`%s` asserts the kind of a syntax node without checking: another kind the grammar allows in this position (e.g. `*` among select expressions) panics before any recover is in place", core.ExprStr(x)))
			case *ast.IndexExpr:
				xt := info.TypeOf(x.X)
				if xt == nil || !strings.Contains(xt.String(), "sqlparser.") {
					return true
				}
				if _, isSlice := xt.Underlying().(*types.Slice); !isSlice {
					return true
				}
				tv, ok := info.Types[x.Index]
				if !ok || tv.Value == nil {
					return true // a loop index
				}
				n++
				base := core.ExprStr(x.X)
				guarded := false
				ast.Inspect(fr.Decl.Body, func(m ast.Node) bool {
					if is, ok := m.(*ast.IfStmt); ok && is.Pos() < x.Pos() && strings.Contains(core.ExprStr(is.Cond), "len("+base+")") {
						guarded = true
					}
					if cc, ok := m.(*ast.CaseClause); ok && cc.Pos() < x.Pos() && x.Pos() < cc.End() {
						for _, e := range cc.List {
							if strings.Contains(core.ExprStr(e), "len("+base+")") {
								guarded = true
							}
						}
					}
					return true
				})
				key := fmt.Sprintf("%s/%s", name, core.ExprStr(x))
				ord[key]++
				if ord[key] > 1 {
					key += fmt.Sprintf("#%d", ord[key])
				}
				c.Decide(guarded, rule, key, x.Pos(), 1, "constant index under a length test",
					fmt.Sprintf("`%s` indexes a list of syntax nodes that the grammar allows to be empty, without a length test: e.g. an aggregate without arguments panics before any recover is in place", core.ExprStr(x)))
			}
			return true
		})
	}
	c.Floor(rule, 3, "type assertions and constant indices on sqlparser nodes in parser/parser.go")
	_ = n
}

// checkTupleTranslation (TUPLE1): the grammar builds a one-element ValTuple only for the right operand of IN / NOT IN
// (a parenthesized single expression is a ParenExpr), so the translation of a ValTuple must yield a tuple of all its
// elements for every length: unwrapping a one-element tuple turns `x IN (e)` into in(x, e), which compares x with the
// members of e, or does not typecheck.
func checkTupleTranslation(c *core.Ctx, rule string) {
	p := c.Prog
	fn := p.Func("parser", "ParseExpression")
	key := "parser.ParseExpression/ValTuple"
	if fn == nil {
		c.Unknown(rule, key, 0, "anchor not found")
		return
	}
	c.SawFunc("parser.ParseExpression")
	var clause *ast.CaseClause
	ast.Inspect(fn.Decl.Body, func(n ast.Node) bool {
		cc, ok := n.(*ast.CaseClause)
		if !ok {
			return true
		}
		for _, e := range cc.List {
			if core.ExprStr(e) == "sqlparser.ValTuple" {
				clause = cc
			}
		}
		return true
	})
	if clause == nil {
		c.Unknown(rule, key, fn.Decl.Pos(), "the ValTuple case was not found")
		return
	}
	bad, n := "", 0
	for _, s := range clause.Body {
		ast.Inspect(s, func(nd ast.Node) bool {
			if _, ok := nd.(*ast.FuncLit); ok {
				return false
			}
			ret, ok := nd.(*ast.ReturnStmt)
			if !ok {
				return true
			}
			if len(ret.Results) == 2 && core.IsNilIdent(fn.Info(), ret.Results[1]) {
				n++
				if call, ok := ret.Results[0].(*ast.CallExpr); !ok || p.CalleeName(fn.Info(), call) != "logical.NewTuple" {
					bad = fmt.Sprintf("%s: a ValTuple is translated to %s instead of a tuple of its elements", p.Pos(ret.Pos()), core.ExprStr(ret.Results[0]))
				}
			} else if len(ret.Results) == 1 {
				// a forwarded (expression, error) pair: the tuple is replaced by whatever the call yields
				bad = fmt.Sprintf("%s: a ValTuple is translated to %s instead of a tuple of its elements (a one-element list `x IN (e)` must stay a list)", p.Pos(ret.Pos()), core.ExprStr(ret.Results[0]))
			}
			return true
		})
	}
	c.Decide(bad == "" && n >= 1, rule, key, clause.Pos(), n, "every successful path yields a tuple of all elements", bad)
}

// checkTopLevelLimit (TOPLIMIT): the LIMIT of the outermost query is evaluated once, with no record at hand
// (ExecutionContext.VariableContext is nil), and its value is read through the Int payload. So it must be typechecked
// (a) in an environment without the output record's schema — otherwise `LIMIT col` typechecks and dereferences the nil
// variable context — and (b) against the expected type Int — otherwise `LIMIT 'a'` reads the zero Int payload.
func checkTopLevelLimit(c *core.Ctx, rule string) {
	p := c.Prog
	pkg := p.Pkg("cmd")
	if pkg == nil {
		c.Unknown(rule, "cmd", 0, "package not found")
		return
	}
	info := pkg.TypesInfo
	var block *ast.IfStmt
	for _, f := range pkg.Syntax {
		ast.Inspect(f, func(n ast.Node) bool {
			if is, ok := n.(*ast.IfStmt); ok && core.ExprStr(is.Cond) == "outputOptions.Limit != nil" && block == nil {
				block = is
			}
			return true
		})
	}
	key := "cmd.rootCmd/top-level LIMIT"
	if block == nil {
		c.Unknown(rule, key, 0, "the `if outputOptions.Limit != nil` block was not found")
		return
	}
	var tcCall *ast.CallExpr
	ast.Inspect(block.Body, func(n ast.Node) bool {
		call, ok := n.(*ast.CallExpr)
		if !ok {
			return true
		}
		for _, a := range call.Args {
			if core.ExprStr(a) == "*outputOptions.Limit" {
				tcCall = call
			}
		}
		return true
	})
	if tcCall == nil {
		c.Unknown(rule, key, block.Pos(), "no call typechecking *outputOptions.Limit was found")
		return
	}
	// (a) environment: no argument adds a record schema or a variable mapping
	badEnv := ""
	for _, a := range tcCall.Args {
		s := core.FullStr(a)
		if strings.Contains(s, "WithRecordSchema(") {
			badEnv = "the limit is typechecked in " + core.ExprStr(a) + ": column references resolve, but the limit is evaluated once with a nil variable context, so `LIMIT col` dereferences nil"
		}
		if strings.Contains(s, "UniqueVariableNames") {
			badEnv = "the limit is typechecked with the output record's variable mapping: column references resolve, but the limit is evaluated once with a nil variable context, so `LIMIT col` dereferences nil"
		}
	}
	c.Decide(badEnv == "", rule, key+"/scope", tcCall.Pos(), 1, "typechecked without the record schema", badEnv)
	// (b) expected type Int: the call reaches logical.TypecheckExpression with octosql.Int
	expectsInt := false
	callee := p.CalleeName(info, tcCall)
	hasIntArg := false
	for _, a := range tcCall.Args {
		if core.ExprStr(a) == "octosql.Int" {
			hasIntArg = true
		}
	}
	if callee == "logical.TypecheckExpression" && hasIntArg {
		expectsInt = true
	} else if hasIntArg {
		for _, fr := range p.AllFuncs("cmd") {
			if p.FName(fr) != callee {
				continue
			}
			ast.Inspect(fr.Decl.Body, func(n ast.Node) bool {
				if call, ok := n.(*ast.CallExpr); ok && p.CalleeName(fr.Info(), call) == "logical.TypecheckExpression" && len(call.Args) == 5 {
					if id, ok := call.Args[3].(*ast.Ident); ok {
						if _, isParam := fr.Info().Uses[id].(*types.Var); isParam {
							expectsInt = true
						}
					}
				}
				return true
			})
		}
	}
	c.Decide(expectsInt, rule, key+"/type", tcCall.Pos(), 1, "typechecked against the expected type Int",
		"the limit expression is typechecked without an expected type (callee "+callee+"): a String, Float or NULL limit is accepted and read through the Int payload, which is 0 — the query prints nothing and exits 0")
}

// checkOrderByOrdinal (ORDPOS): in SQL `ORDER BY 2` names the second select expression. A translation that takes the
// integer literal as an ordinary expression sorts by a constant — i.e. not at all, and the direction is ignored — so
// the literal must be resolved to the select expression or rejected.
func checkOrderByOrdinal(c *core.Ctx, rule string) {
	p := c.Prog
	fn := p.Func("parser", "parseOrderByExpressions")
	key := "parser.parseOrderByExpressions/integer literal key"
	if fn == nil {
		c.Unknown(rule, key, 0, "anchor not found")
		return
	}
	c.SawFunc("parser.parseOrderByExpressions")
	handled := false
	ast.Inspect(fn.Decl.Body, func(n ast.Node) bool {
		is, ok := n.(*ast.IfStmt)
		if !ok {
			return true
		}
		txt := core.FullStr(is)
		if strings.Contains(txt, "sqlparser.SQLVal") && strings.Contains(txt, "IntVal") {
			// rejected (a return with an error) or resolved (the key is replaced by something that is not the literal)
			ast.Inspect(is.Body, func(m ast.Node) bool {
				switch v := m.(type) {
				case *ast.ReturnStmt:
					if len(v.Results) > 0 && !core.IsNilIdent(fn.Info(), v.Results[len(v.Results)-1]) {
						handled = true
					}
				case *ast.AssignStmt:
					handled = true
				}
				return true
			})
		}
		return true
	})
	c.Decide(handled, rule, key, fn.Decl.Pos(), 1, "an integer literal sort key is resolved or rejected",
		"an integer literal in ORDER BY is translated as a constant expression: `ORDER BY 2 DESC, 1 DESC LIMIT 3` sorts by nothing and returns the three smallest records instead of the three largest by the second column, and an out-of-range position is accepted")
}
