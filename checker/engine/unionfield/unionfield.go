// Package unionfield checks octosql's closed tagged unions: a struct with a
// discriminant field of an enum type and one payload field per arm. PAN5:
// switches that assert exhaustiveness (their default / fall-out panics) list
// every constant. UNI1: inside a region where the discriminant is known to be C,
// only the payload of arm C is touched.
package unionfield

import (
	"go/ast"
	"go/constant"
	"go/token"
	"go/types"
	"sort"
	"strings"

	"octoverif/core"
)

type Enum struct {
	Named  *types.Named
	Consts []*types.Const // sorted by value
}

// EnumOf returns the enum (named integer type of the module with ≥2 package-level constants).
func EnumOf(t types.Type) *Enum {
	n, ok := t.(*types.Named)
	if !ok || n.Obj().Pkg() == nil || !strings.HasPrefix(n.Obj().Pkg().Path(), core.ModPath) {
		return nil
	}
	b, ok := n.Underlying().(*types.Basic)
	if !ok || b.Info()&types.IsInteger == 0 {
		return nil
	}
	e := &Enum{Named: n}
	sc := n.Obj().Pkg().Scope()
	for _, name := range sc.Names() {
		if c, ok := sc.Lookup(name).(*types.Const); ok && types.Identical(c.Type(), n) {
			e.Consts = append(e.Consts, c)
		}
	}
	if len(e.Consts) < 2 {
		return nil
	}
	sort.Slice(e.Consts, func(i, j int) bool {
		a, _ := constant.Int64Val(e.Consts[i].Val())
		b, _ := constant.Int64Val(e.Consts[j].Val())
		return a < b
	})
	return e
}

type EnumSwitch struct {
	Stmt        *ast.SwitchStmt
	Tag         ast.Expr
	Enum        *Enum
	Listed      map[string]bool
	HasDefault  bool
	Asserts     bool // default clause or the statement after the switch panics: the author claims exhaustiveness
	AssertsWhy  string
	Missing     []string
	EnclosingFn string
}

func endsInPanic(list []ast.Stmt) bool {
	if len(list) == 0 {
		return false
	}
	es, ok := list[len(list)-1].(*ast.ExprStmt)
	if !ok {
		return false
	}
	call, ok := es.X.(*ast.CallExpr)
	if !ok {
		return false
	}
	id, ok := call.Fun.(*ast.Ident)
	return ok && id.Name == "panic"
}

// Switches finds the tag switches over module enums in fn.
func Switches(fn *core.FuncRef) []*EnumSwitch {
	info := fn.Info()
	var out []*EnumSwitch
	core.WalkStack(fn.Decl.Body, func(n ast.Node, stack []ast.Node) bool {
		sw, ok := n.(*ast.SwitchStmt)
		if !ok || sw.Tag == nil {
			return true
		}
		tv, ok := info.Types[sw.Tag]
		if !ok {
			return true
		}
		en := EnumOf(tv.Type)
		if en == nil {
			return true
		}
		es := &EnumSwitch{Stmt: sw, Tag: sw.Tag, Enum: en, Listed: map[string]bool{}}
		for _, cc := range sw.Body.List {
			clause := cc.(*ast.CaseClause)
			if clause.List == nil {
				es.HasDefault = true
				if endsInPanic(clause.Body) {
					es.Asserts, es.AssertsWhy = true, "default clause panics"
				}
				continue
			}
			for _, e := range clause.List {
				var id *ast.Ident
				switch x := core.Unparen(e).(type) {
				case *ast.Ident:
					id = x
				case *ast.SelectorExpr:
					id = x.Sel
				}
				if id != nil {
					if c, ok := info.Uses[id].(*types.Const); ok {
						es.Listed[c.Name()] = true
					}
				}
			}
		}
		// no default: what follows the switch?
		if !es.HasDefault && len(stack) > 0 {
			if blk, ok := stack[len(stack)-1].(*ast.BlockStmt); ok {
				for i, st := range blk.List {
					if st == ast.Stmt(sw) {
						rest := blk.List[i+1:]
						if len(rest) > 0 {
							if es2, ok := rest[0].(*ast.ExprStmt); ok {
								if call, ok := es2.X.(*ast.CallExpr); ok {
									if id, ok := call.Fun.(*ast.Ident); ok && id.Name == "panic" {
										es.Asserts, es.AssertsWhy = true, "the statement after the switch panics"
									}
								}
							}
						}
					}
				}
			}
		}
		for _, c := range en.Consts {
			if !es.Listed[c.Name()] {
				es.Missing = append(es.Missing, c.Name())
			}
		}
		out = append(out, es)
		return true
	})
	return out
}

// ---------------------------------------------------------------------------
// UNI1

// Union describes one tagged-union struct.
type Union struct {
	Struct  *types.Named
	Discr   string // discriminant field name
	Enum    *Enum
	Arm     map[string]string // const name -> payload field ("" = no payload)
	Payload map[string]bool   // all payload field names
}

var armOverride = map[string]string{"TypeIDString": "Str"}

// Unions derives the tagged unions of the module: structs with a field of enum
// type whose constants' suffixes name sibling fields.
func Unions(p *core.Program) []*Union {
	var out []*Union
	for _, pkg := range p.Pkgs {
		if pkg.Types == nil {
			continue
		}
		sc := pkg.Types.Scope()
		for _, name := range sc.Names() {
			tn, ok := sc.Lookup(name).(*types.TypeName)
			if !ok {
				continue
			}
			named, ok := tn.Type().(*types.Named)
			if !ok {
				continue
			}
			st, ok := named.Underlying().(*types.Struct)
			if !ok {
				continue
			}
			for i := 0; i < st.NumFields(); i++ {
				en := EnumOf(st.Field(i).Type())
				if en == nil {
					continue
				}
				u := &Union{Struct: named, Discr: st.Field(i).Name(), Enum: en, Arm: map[string]string{}, Payload: map[string]bool{}}
				fields := map[string]bool{}
				for j := 0; j < st.NumFields(); j++ {
					if j != i {
						fields[st.Field(j).Name()] = true
					}
				}
				prefix := en.Named.Obj().Name()
				for _, c := range en.Consts {
					suffix := strings.TrimPrefix(c.Name(), prefix)
					if o, ok := armOverride[c.Name()]; ok {
						suffix = o
					}
					if fields[suffix] {
						u.Arm[c.Name()] = suffix
						u.Payload[suffix] = true
					} else {
						u.Arm[c.Name()] = ""
					}
				}
				if len(u.Payload) >= 2 {
					out = append(out, u)
				}
			}
		}
	}
	return out
}

type ArmViolation struct {
	Pos     token.Pos
	Const   string
	Field   string
	Want    string
	Path    string
	Context string
	Indexed bool // the wrong payload is indexed (p.F[i]) or dereferenced (p.F.G with F a pointer): a run-time panic
}

type ArmStats struct{ Regions, Accesses int }

// ArmViolations checks UNI1 in fn for every union.
func ArmViolations(p *core.Program, fn *core.FuncRef, unions []*Union) ([]ArmViolation, ArmStats) {
	info := fn.Info()
	var out []ArmViolation
	var stats ArmStats
	unionOf := func(e ast.Expr) *Union {
		tv, ok := info.Types[e]
		if !ok {
			return nil
		}
		t := tv.Type
		if pt, ok := t.(*types.Pointer); ok {
			t = pt.Elem()
		}
		for _, u := range unions {
			if types.Identical(t, u.Struct) {
				return u
			}
		}
		return nil
	}
	// checkRegion: inside nodes, accesses path.F with F a payload not in allowed
	checkRegion := func(nodes []ast.Stmt, path string, u *Union, consts []string, ctx string) {
		// with several constants in one clause only a payload common to all of them is known to be set
		allowed := map[string]bool{}
		for i, c := range consts {
			f := u.Arm[c]
			if i == 0 {
				if f != "" {
					allowed[f] = true
				}
				continue
			}
			for k := range allowed {
				if k != f {
					delete(allowed, k)
				}
			}
		}
		stats.Regions++
		for _, st := range nodes {
			indexed := map[*ast.SelectorExpr]bool{}
			ast.Inspect(st, func(n ast.Node) bool {
				if ix, ok := n.(*ast.IndexExpr); ok {
					if sel, ok := core.Unparen(ix.X).(*ast.SelectorExpr); ok {
						indexed[sel] = true
					}
				}
				// p.F.G where F is a pointer: a nil dereference when F is not this arm's payload
				if outer, ok := n.(*ast.SelectorExpr); ok {
					if sel, ok := core.Unparen(outer.X).(*ast.SelectorExpr); ok {
						if tv, ok := info.Types[sel]; ok {
							if _, isPtr := tv.Type.Underlying().(*types.Pointer); isPtr {
								indexed[sel] = true
							}
						}
					}
				}
				return true
			})
			ast.Inspect(st, func(n ast.Node) bool {
				// a nested switch/if on the same discriminant re-establishes its own region
				if sw, ok := n.(*ast.SwitchStmt); ok && sw.Tag != nil && core.ExprStr(sw.Tag) == path+"."+u.Discr {
					return false
				}
				// an assignment to the path itself ends our knowledge; be conservative and stop
				sel, ok := n.(*ast.SelectorExpr)
				if !ok {
					return true
				}
				if core.ExprStr(sel.X) != path || !u.Payload[sel.Sel.Name] {
					return true
				}
				stats.Accesses++
				if !allowed[sel.Sel.Name] {
					want := []string{}
					for f := range allowed {
						want = append(want, f)
					}
					sort.Strings(want)
					out = append(out, ArmViolation{Pos: sel.Pos(), Const: strings.Join(consts, ","), Field: sel.Sel.Name, Want: strings.Join(want, "|"), Path: path, Context: ctx, Indexed: indexed[sel]})
				}
				return true
			})
		}
	}
	constName := func(e ast.Expr) string {
		var id *ast.Ident
		switch x := core.Unparen(e).(type) {
		case *ast.Ident:
			id = x
		case *ast.SelectorExpr:
			id = x.Sel
		}
		if id == nil {
			return ""
		}
		if c, ok := info.Uses[id].(*types.Const); ok {
			return c.Name()
		}
		return ""
	}
	ast.Inspect(fn.Decl.Body, func(n ast.Node) bool {
		switch x := n.(type) {
		case *ast.SwitchStmt:
			if x.Tag == nil {
				return true
			}
			sel, ok := core.Unparen(x.Tag).(*ast.SelectorExpr)
			if !ok {
				return true
			}
			u := unionOf(sel.X)
			if u == nil || sel.Sel.Name != u.Discr {
				return true
			}
			path := core.ExprStr(sel.X)
			for _, cc := range x.Body.List {
				clause := cc.(*ast.CaseClause)
				if clause.List == nil {
					continue
				}
				var consts []string
				for _, e := range clause.List {
					if c := constName(e); c != "" {
						consts = append(consts, c)
					}
				}
				if len(consts) == len(clause.List) {
					checkRegion(clause.Body, path, u, consts, "case "+strings.Join(consts, ","))
				}
			}
		case *ast.IfStmt:
			be, ok := core.Unparen(x.Cond).(*ast.BinaryExpr)
			if !ok || be.Op != token.EQL {
				return true
			}
			sel, ok := core.Unparen(be.X).(*ast.SelectorExpr)
			if !ok {
				return true
			}
			u := unionOf(sel.X)
			c := constName(be.Y)
			if u == nil || sel.Sel.Name != u.Discr || c == "" {
				return true
			}
			if _, known := u.Arm[c]; known {
				checkRegion(x.Body.List, core.ExprStr(sel.X), u, []string{c}, "if "+core.ExprStr(x.Cond))
			}
		}
		return true
	})
	return out, stats
}
