// Package mirror compares two syntax regions that are meant to be mirror images of
// each other (left/right input handling). Identifiers are compared after swapping
// left↔right (case preserved) and true↔false; string literals are ignored;
// identifiers listed as fixed are not swapped.
package mirror

import (
	"bytes"
	"fmt"
	"go/ast"
	"go/printer"
	"go/scanner"
	"go/token"
	"strings"
)

type tok struct {
	tok token.Token
	lit string
}

func tokens(n ast.Node) []tok {
	var b bytes.Buffer
	printer.Fprint(&b, token.NewFileSet(), n)
	var s scanner.Scanner
	fset := token.NewFileSet()
	f := fset.AddFile("", fset.Base(), b.Len())
	s.Init(f, b.Bytes(), nil, 0)
	var out []tok
	for {
		_, t, lit := s.Scan()
		if t == token.EOF {
			break
		}
		if t == token.SEMICOLON && lit == "\n" {
			continue
		}
		if t == token.STRING || t == token.CHAR {
			lit = "S"
		}
		out = append(out, tok{t, lit})
	}
	return out
}

func swapWord(s string) string {
	r := strings.NewReplacer("left", "\x00", "Left", "\x01", "right", "left", "Right", "Left")
	s = r.Replace(s)
	return strings.NewReplacer("\x00", "right", "\x01", "Right").Replace(s)
}

// Compare reports the first difference between swap(a) and b, or "".
func Compare(a, b ast.Node, fixed map[string]bool) string {
	ta, tb := tokens(a), tokens(b)
	// a boolean literal is mirrored only where it encodes the side: the amLeft argument that
	// follows the two record trees, and the assignment to a fixed (declared asymmetric) variable
	sideBool := func(i int) bool {
		if i < 2 {
			return false
		}
		prev, prev2 := ta[i-1], ta[i-2]
		if prev.tok == token.COMMA && prev2.tok == token.IDENT && strings.HasSuffix(prev2.lit, "Records") {
			return true
		}
		if prev.tok == token.ASSIGN && prev2.tok == token.IDENT && fixed[prev2.lit] {
			return true
		}
		return false
	}
	orig := append([]tok(nil), ta...)
	_ = orig
	for i := range ta {
		if ta[i].tok == token.IDENT && !fixed[ta[i].lit] {
			switch ta[i].lit {
			case "true":
				if sideBool(i) {
					ta[i].lit = "false"
				}
			case "false":
				if sideBool(i) {
					ta[i].lit = "true"
				}
			default:
				ta[i].lit = swapWord(ta[i].lit)
			}
		}
	}
	n := len(ta)
	if len(tb) < n {
		n = len(tb)
	}
	for i := 0; i < n; i++ {
		if ta[i] != tb[i] {
			lo := i - 6
			if lo < 0 {
				lo = 0
			}
			hi := i + 4
			ctx := func(t []tok) string {
				h := hi
				if h > len(t) {
					h = len(t)
				}
				var parts []string
				for _, x := range t[lo:h] {
					if x.lit != "" {
						parts = append(parts, x.lit)
					} else {
						parts = append(parts, x.tok.String())
					}
				}
				return strings.Join(parts, " ")
			}
			return fmt.Sprintf("token %d differs: mirrored first region has `… %s …`, second region has `… %s …`", i, ctx(ta), ctx(tb))
		}
	}
	if len(ta) != len(tb) {
		return fmt.Sprintf("one region has %d tokens, its mirror image %d: a statement exists on one side only", len(ta), len(tb))
	}
	return ""
}
