// Package tables statically evaluates the registration literals of octosql
// (functions.FunctionMap, aggregates) into descriptor tables.
package tables

import (
	"fmt"
	"go/ast"
	"go/constant"
	"go/token"
	"go/types"
	"sort"
	"strings"

	"octoverif/core"
)

// TypeSet is the statically evaluated form of an octosql.Type expression: the set
// of TypeID names it admits ("Int", "Null", "List", …, "Any"), or Dynamic.
type TypeSet struct {
	IDs     []string
	Dynamic bool
	Src     string
}

func (t TypeSet) Has(id string) bool {
	for _, x := range t.IDs {
		if x == id || x == "Any" {
			return true
		}
	}
	return false
}

func (t TypeSet) String() string {
	if t.Dynamic {
		return "dynamic(" + t.Src + ")"
	}
	return strings.Join(t.IDs, "|")
}

type Descriptor struct {
	Name      string
	Index     int
	Lit       *ast.CompositeLit
	ArgTypes  []TypeSet
	HasArgs   bool
	Output    TypeSet
	HasOutput bool
	Strict    bool
	TypeFn    *ast.FuncLit
	Function  *ast.FuncLit
	Factory   *ast.FuncLit // the enclosing immediately-invoked literal (holds per-function state such as caches)
	// Binds: for a named factory, its parameters and the arguments this table entry passes (Function: newMatcher("(?i)"))
	Binds    map[types.Object]ast.Expr
	FuncExpr ast.Expr
}

func (d *Descriptor) Key() string { return fmt.Sprintf("%s#%d", d.Name, d.Index) }

// EvalType evaluates an expression of type octosql.Type.
func EvalType(info *types.Info, e ast.Expr) TypeSet {
	e = core.Unparen(e)
	src := core.ExprStr(e)
	switch x := e.(type) {
	case *ast.SelectorExpr:
		// octosql.Int etc. are package-level vars
		switch x.Sel.Name {
		case "Null", "Int", "Float", "Boolean", "String", "Time", "Duration", "Any":
			if v, ok := info.Uses[x.Sel].(*types.Var); ok && v.Pkg() != nil && v.Pkg().Name() == "octosql" {
				return TypeSet{IDs: []string{x.Sel.Name}, Src: src}
			}
		}
	case *ast.CallExpr:
		if f, ok := core.Callee(info, x).(*types.Func); ok && f.Pkg() != nil && f.Pkg().Name() == "octosql" && f.Name() == "TypeSum" && len(x.Args) == 2 {
			a, b := EvalType(info, x.Args[0]), EvalType(info, x.Args[1])
			if a.Dynamic || b.Dynamic {
				return TypeSet{Dynamic: true, Src: src}
			}
			set := map[string]bool{}
			for _, id := range append(a.IDs, b.IDs...) {
				set[id] = true
			}
			var ids []string
			for id := range set {
				ids = append(ids, id)
			}
			sort.Strings(ids)
			return TypeSet{IDs: ids, Src: src}
		}
	case *ast.CompositeLit:
		for _, el := range x.Elts {
			if kv, ok := el.(*ast.KeyValueExpr); ok {
				if k, ok := kv.Key.(*ast.Ident); ok && k.Name == "TypeID" {
					if tv, ok := info.Types[kv.Value]; ok && tv.Value != nil {
						if sel, ok := core.Unparen(kv.Value).(*ast.SelectorExpr); ok {
							return TypeSet{IDs: []string{strings.TrimPrefix(sel.Sel.Name, "TypeID")}, Src: src}
						}
					}
				}
			}
		}
	}
	return TypeSet{Dynamic: true, Src: src}
}

// FunctionMap extracts the descriptors from the composite literal returned by
// functions.FunctionMap.
func FunctionMap(p *core.Program) ([]*Descriptor, *core.FuncRef, error) {
	fn := p.Func("functions", "FunctionMap")
	if fn == nil {
		return nil, nil, fmt.Errorf("functions.FunctionMap not found")
	}
	info := fn.Info()
	var lit *ast.CompositeLit
	for _, st := range fn.Decl.Body.List {
		if rs, ok := st.(*ast.ReturnStmt); ok && len(rs.Results) == 1 {
			lit, _ = core.Unparen(rs.Results[0]).(*ast.CompositeLit)
		}
	}
	if lit == nil {
		return nil, fn, fmt.Errorf("functions.FunctionMap does not return a composite literal")
	}
	var out []*Descriptor
	for _, el := range lit.Elts {
		kv, ok := el.(*ast.KeyValueExpr)
		if !ok {
			continue
		}
		tv, ok := info.Types[kv.Key]
		if !ok || tv.Value == nil || tv.Value.Kind() != constant.String {
			return nil, fn, fmt.Errorf("%s: non-constant function name", p.Pos(kv.Key.Pos()))
		}
		name := constant.StringVal(tv.Value)
		details, ok := kv.Value.(*ast.CompositeLit)
		if !ok {
			return nil, fn, fmt.Errorf("%s: function details are not a literal", p.Pos(kv.Value.Pos()))
		}
		for _, f := range details.Elts {
			fkv, ok := f.(*ast.KeyValueExpr)
			if !ok || fkv.Key.(*ast.Ident).Name != "Descriptors" {
				continue
			}
			dl, ok := fkv.Value.(*ast.CompositeLit)
			if !ok {
				return nil, fn, fmt.Errorf("%s: Descriptors is not a literal", p.Pos(fkv.Value.Pos()))
			}
			for i, de := range dl.Elts {
				dlit, ok := de.(*ast.CompositeLit)
				if !ok {
					return nil, fn, fmt.Errorf("%s: descriptor is not a literal", p.Pos(de.Pos()))
				}
				d := &Descriptor{Name: name, Index: i, Lit: dlit}
				for _, df := range dlit.Elts {
					dkv, ok := df.(*ast.KeyValueExpr)
					if !ok {
						continue
					}
					switch dkv.Key.(*ast.Ident).Name {
					case "ArgumentTypes":
						d.HasArgs = true
						if al, ok := dkv.Value.(*ast.CompositeLit); ok {
							for _, a := range al.Elts {
								d.ArgTypes = append(d.ArgTypes, EvalType(info, a))
							}
						}
					case "OutputType":
						d.HasOutput = true
						d.Output = EvalType(info, dkv.Value)
					case "Strict":
						if tv, ok := info.Types[dkv.Value]; ok && tv.Value != nil {
							d.Strict = constant.BoolVal(tv.Value)
						}
					case "TypeFn":
						d.TypeFn = namedOrLit(fn, dkv.Value)
					case "Function":
						d.FuncExpr = dkv.Value
						d.Function = namedOrLit(fn, dkv.Value)
						// a named factory: Function: newMatcher(flags) with `func newMatcher(…) func(values…) {…; return func(values…) {…}}`
						if call, ok := core.Unparen(dkv.Value).(*ast.CallExpr); ok && d.Function == nil {
							if outer := namedOrLit(fn, call.Fun); outer != nil {
								if _, isLit := core.Unparen(call.Fun).(*ast.FuncLit); !isLit {
									d.Factory = outer
									d.Binds = map[types.Object]ast.Expr{}
									ai := 0
									for _, f := range outer.Type.Params.List {
										for _, nm := range f.Names {
											if ai < len(call.Args) && call.Ellipsis == token.NoPos {
												if o := fn.Info().Defs[nm]; o != nil {
													d.Binds[o] = call.Args[ai]
												}
											}
											ai++
										}
									}
									for _, rs := range ReturnsOf(outer) {
										if len(rs.Results) == 1 {
											if inner, ok := core.Unparen(rs.Results[0]).(*ast.FuncLit); ok {
												// a node of its own per table entry: the bindings differ between entries
												d.Function = &ast.FuncLit{Type: inner.Type, Body: inner.Body}
											}
										}
									}
								}
							}
						}
						// func() func(values) (Value, error) { cache := …; return func(values…) {…} }()
						if call, ok := core.Unparen(dkv.Value).(*ast.CallExpr); ok && d.Function == nil {
							if outer, ok := core.Unparen(call.Fun).(*ast.FuncLit); ok {
								d.Factory = outer
								for _, rs := range ReturnsOf(outer) {
									if len(rs.Results) == 1 {
										if inner, ok := core.Unparen(rs.Results[0]).(*ast.FuncLit); ok {
											d.Function = inner
										}
									}
								}
							}
						}
					}
				}
				out = append(out, d)
			}
		}
	}
	return out, fn, nil
}

// ReturnsOf lists the return statements of a function literal, excluding those of
// nested literals.
func ReturnsOf(lit *ast.FuncLit) []*ast.ReturnStmt {
	var out []*ast.ReturnStmt
	ast.Inspect(lit.Body, func(n ast.Node) bool {
		if fl, ok := n.(*ast.FuncLit); ok && fl != lit {
			return false
		}
		if rs, ok := n.(*ast.ReturnStmt); ok {
			out = append(out, rs)
		}
		return true
	})
	return out
}

var _ = token.NoPos

// namedOrLit: a function literal, or the declaration of a package-level function of the same package named by e
// (presented as a literal over the declaration's own type and body nodes) — `TypeFn: orderingComparisonType` is the
// same table entry as the literal it was extracted from.
func namedOrLit(fn *core.FuncRef, e ast.Expr) *ast.FuncLit {
	e = core.Unparen(e)
	if lit, ok := e.(*ast.FuncLit); ok {
		return lit
	}
	id, ok := e.(*ast.Ident)
	if !ok {
		return nil
	}
	obj := fn.Info().Uses[id]
	if obj == nil {
		return nil
	}
	for _, f := range fn.Pkg.Syntax {
		for _, d := range f.Decls {
			if fd, ok := d.(*ast.FuncDecl); ok && fd.Recv == nil && fd.Body != nil && fn.Info().Defs[fd.Name] == obj {
				return &ast.FuncLit{Type: fd.Type, Body: fd.Body}
			}
		}
	}
	return nil
}
