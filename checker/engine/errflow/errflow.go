// Package errflow classifies what happens to the error result of calls
// (rules ERR1/ERR2) and what the branch guarded by `err != nil` does with a
// known non-nil error (rules ERR3/ERR4).
package errflow

import (
	"fmt"
	"go/ast"
	"go/token"
	"go/types"

	"golang.org/x/tools/go/cfg"

	"octoverif/core"
)

type Use int

const (
	Propagated Use = iota // returned directly, passed to another call, stored in a field/channel struct
	Checked               // assigned to a variable that is read on every path before being overwritten or going out of scope
	Discarded             // expression statement, assigned to _, go/defer statement
	Dead                  // assigned to a variable that some path never reads (overwritten or function exit)
	Captured              // assigned to a variable of an enclosing function (callback idiom); read checked lexically
)

func (u Use) String() string {
	return [...]string{"propagated", "checked", "discarded", "dead", "captured"}[u]
}

type Site struct {
	Fn      *core.FuncRef
	Lit     *ast.FuncLit // innermost enclosing literal or nil
	Call    *ast.CallExpr
	Callee  string
	Use     Use
	How     string
	Ordinal int // n-th call of this callee in the function (1-based)
	Stmt    ast.Node
	Stack   []ast.Node // ancestors of the call, outermost first
}

// Key is stable under unrelated edits: enclosing function → callee (+ordinal).
func (s *Site) Key(p *core.Program) string {
	k := p.FName(s.Fn) + "→" + s.Callee
	if s.Ordinal > 1 {
		k += fmt.Sprintf("#%d", s.Ordinal)
	}
	return k
}

// Sites enumerates every call in fn whose last result is error.
func Sites(p *core.Program, fn *core.FuncRef) []*Site {
	info := fn.Info()
	var out []*Site
	ord := map[string]int{}
	core.WalkStack(fn.Decl.Body, func(n ast.Node, stack []ast.Node) bool {
		call, ok := n.(*ast.CallExpr)
		if !ok {
			return true
		}
		tv, ok := info.Types[call]
		if !ok || tv.IsType() {
			return true
		}
		idx, isErr := core.LastIsError(tv.Type)
		if !isErr {
			return true
		}
		// conversions are not calls
		if ftv, ok := info.Types[call.Fun]; ok && ftv.IsType() {
			return true
		}
		s := &Site{Fn: fn, Call: call, Callee: p.CalleeName(info, call), Lit: core.InnermostFuncLit(stack), Stack: append([]ast.Node(nil), stack...)}
		ord[s.Callee]++
		s.Ordinal = ord[s.Callee]
		classify(p, s, info, stack, idx)
		out = append(out, s)
		return true
	})
	return out
}

func bodyOf(s *Site) *ast.BlockStmt {
	if s.Lit != nil {
		return s.Lit.Body
	}
	return s.Fn.Decl.Body
}

func classify(p *core.Program, s *Site, info *types.Info, stack []ast.Node, errIdx int) {
	// skip parens
	i := len(stack) - 1
	for i >= 0 {
		if _, ok := stack[i].(*ast.ParenExpr); ok {
			i--
			continue
		}
		break
	}
	if i < 0 {
		s.Use, s.How = Propagated, "?"
		return
	}
	parent := stack[i]
	s.Stmt = parent
	switch x := parent.(type) {
	case *ast.ExprStmt:
		s.Use, s.How = Discarded, "expression statement"
	case *ast.GoStmt:
		s.Use, s.How = Discarded, "go statement"
	case *ast.DeferStmt:
		s.Use, s.How = Discarded, "defer statement"
	case *ast.ReturnStmt:
		s.Use, s.How = Propagated, "returned"
	case *ast.AssignStmt:
		if len(x.Rhs) != 1 {
			// a, b = f(), g() — each is single valued
			for k, r := range x.Rhs {
				if core.Unparen(r) == s.Call && k < len(x.Lhs) {
					classifyLHS(p, s, info, x.Lhs[k], x, stack)
					return
				}
			}
			s.Use, s.How = Propagated, "multi-assign"
			return
		}
		if errIdx < len(x.Lhs) {
			classifyLHS(p, s, info, x.Lhs[errIdx], x, stack)
		} else {
			s.Use, s.How = Propagated, "assign?"
		}
	case *ast.ValueSpec:
		if errIdx < len(x.Names) {
			classifyLHS(p, s, info, x.Names[errIdx], nil, stack)
			// find the DeclStmt for dataflow
		} else {
			s.Use, s.How = Propagated, "var?"
		}
	case *ast.CallExpr:
		s.Use, s.How = Propagated, "argument of "+core.ExprStr(x.Fun)
	case *ast.BinaryExpr:
		s.Use, s.How = Propagated, "compared in condition"
	default:
		s.Use, s.How = Propagated, fmt.Sprintf("used in %T", parent)
	}
}

func classifyLHS(p *core.Program, s *Site, info *types.Info, lhs ast.Expr, as *ast.AssignStmt, stack []ast.Node) {
	id, ok := core.Unparen(lhs).(*ast.Ident)
	if !ok {
		s.Use, s.How = Propagated, "stored in "+core.ExprStr(lhs)
		return
	}
	if id.Name == "_" {
		s.Use, s.How = Discarded, "assigned to _"
		return
	}
	obj := info.Defs[id]
	if obj == nil {
		obj = info.Uses[id]
	}
	if obj == nil {
		s.Use, s.How = Propagated, "unresolved lhs"
		return
	}
	body := bodyOf(s)
	// captured variable: declared outside the innermost function literal
	if s.Lit != nil && !(obj.Pos() >= s.Lit.Pos() && obj.Pos() <= s.Lit.End()) {
		// callback idiom: the outer function must read the variable outside this literal
		outer := s.Fn.Decl.Body
		read := false
		// a captured *named result* of an enclosing function is read by its returns
		for _, anc := range stack {
			var ft *ast.FuncType
			if fl, ok := anc.(*ast.FuncLit); ok {
				ft = fl.Type
			}
			if ft == nil {
				continue
			}
			if isNamedResult(info, ft, obj) {
				read = true
			}
		}
		if isNamedResult(info, s.Fn.Decl.Type, obj) {
			read = true
		}
		ast.Inspect(outer, func(n ast.Node) bool {
			if n == s.Lit {
				return false
			}
			if idn, ok := n.(*ast.Ident); ok && info.Uses[idn] == obj {
				// exclude bare LHS of assignments: approximate by requiring a read context via ReadsObj on the parent later
				read = true
			}
			return !read
		})
		if read {
			s.Use, s.How = Captured, "assigned to captured "+id.Name+", read by the enclosing function"
		} else {
			s.Use, s.How = Dead, "assigned to captured "+id.Name+" which the enclosing function never reads"
		}
		return
	}
	// named result parameter: bare returns read it
	isResult := false
	var ftype *ast.FuncType
	if s.Lit != nil {
		ftype = s.Lit.Type
	} else {
		ftype = s.Fn.Decl.Type
	}
	if ftype.Results != nil {
		for _, f := range ftype.Results.List {
			for _, n := range f.Names {
				if info.Defs[n] == obj {
					isResult = true
				}
			}
		}
	}
	// locate the statement node in the CFG
	var stmt ast.Node
	for k := len(stack) - 1; k >= 0; k-- {
		switch stack[k].(type) {
		case *ast.AssignStmt, *ast.DeclStmt:
			stmt = stack[k]
		}
		if stmt != nil {
			break
		}
	}
	if stmt == nil {
		s.Use, s.How = Propagated, "no statement"
		return
	}
	ok2, why := readOnEveryPath(info, body, stmt, obj, isResult)
	if ok2 {
		s.Use, s.How = Checked, "assigned to "+id.Name+", read on every path"
	} else {
		s.Use, s.How = Dead, "assigned to "+id.Name+": "+why
	}
}

func isNamedResult(info *types.Info, ft *ast.FuncType, obj types.Object) bool {
	if ft == nil || ft.Results == nil {
		return false
	}
	for _, f := range ft.Results.List {
		for _, n := range f.Names {
			if info.Defs[n] == obj {
				return true
			}
		}
	}
	return false
}

func mayReturn(*ast.CallExpr) bool { return true }

// readOnEveryPath: forward search in the CFG from the defining statement; every
// path must reach a read of obj before a redefinition or the function exit.
func readOnEveryPath(info *types.Info, body *ast.BlockStmt, def ast.Node, obj types.Object, isResult bool) (bool, string) {
	g := cfg.New(body, mayReturn)
	var startB *cfg.Block
	startI := -1
	for _, b := range g.Blocks {
		for i, n := range b.Nodes {
			if n == def || (n.Pos() == def.Pos() && n.End() == def.End()) {
				startB, startI = b, i
			}
		}
	}
	if startB == nil {
		// statement nested in a construct go/cfg flattens differently (e.g. inside a FuncLit handled elsewhere)
		return true, ""
	}
	visited := map[*cfg.Block]bool{}
	var walk func(b *cfg.Block, from int) (bool, string)
	walk = func(b *cfg.Block, from int) (bool, string) {
		for i := from; i < len(b.Nodes); i++ {
			n := b.Nodes[i]
			if core.ReadsObj(info, n, obj) {
				return true, ""
			}
			if rs, ok := n.(*ast.ReturnStmt); ok {
				if isResult && len(rs.Results) == 0 {
					return true, ""
				}
				return false, "a path returns without reading it"
			}
			if core.WritesObj(info, n, obj) {
				return false, "overwritten before being read"
			}
		}
		if len(b.Succs) == 0 {
			if isResult {
				return true, ""
			}
			return false, "a path reaches the end of the function without reading it"
		}
		for _, s := range b.Succs {
			if visited[s] {
				continue
			}
			visited[s] = true
			if ok, why := walk(s, 0); !ok {
				return false, why
			}
		}
		return true, ""
	}
	return walk(startB, startI+1)
}

// ---------------------------------------------------------------------------
// branch rule: what does the code do where an error is known non-nil?

type Branch struct {
	Fn      *core.FuncRef
	If      *ast.IfStmt
	ErrExpr ast.Expr
	OK      bool
	Why     string
	Ordinal int
}

func (b *Branch) Key(p *core.Program) string {
	k := p.FName(b.Fn) + ":if " + core.ExprStr(b.ErrExpr) + "!=nil"
	if b.Ordinal > 1 {
		k += fmt.Sprintf("#%d", b.Ordinal)
	}
	return k
}

// nonNilTested returns the error expression X of a conjunct `X != nil` of cond.
func nonNilTested(info *types.Info, cond ast.Expr) ast.Expr {
	cond = core.Unparen(cond)
	be, ok := cond.(*ast.BinaryExpr)
	if !ok {
		return nil
	}
	if be.Op == token.LAND {
		if x := nonNilTested(info, be.X); x != nil {
			return x
		}
		return nonNilTested(info, be.Y)
	}
	if be.Op != token.NEQ {
		return nil
	}
	var x ast.Expr
	if core.IsNilIdent(info, be.Y) {
		x = be.X
	} else if core.IsNilIdent(info, be.X) {
		x = be.Y
	} else {
		return nil
	}
	if tv, ok := info.Types[x]; ok && core.IsErrorType(tv.Type) {
		return x
	}
	return nil
}

// SentinelTest recognises conditions that single out an expected error value:
// err == io.EOF, errors.Is(err, …), strings.Contains(err.Error(), …), status.Code(err)==…
func mentions(info *types.Info, n ast.Node, errExpr ast.Expr) bool {
	want := core.ExprStr(errExpr)
	found := false
	ast.Inspect(n, func(m ast.Node) bool {
		if e, ok := m.(ast.Expr); ok && core.ExprStr(e) == want {
			found = true
		}
		return !found
	})
	return found
}

// Branches finds every `if X != nil` on an error-typed X in fn and decides
// whether the guarded block lets the error escape (ERR4).
func Branches(p *core.Program, fn *core.FuncRef) []*Branch {
	info := fn.Info()
	var out []*Branch
	ord := map[string]int{}
	core.WalkStack(fn.Decl.Body, func(n ast.Node, stack []ast.Node) bool {
		is, ok := n.(*ast.IfStmt)
		if !ok {
			return true
		}
		x := nonNilTested(info, is.Cond)
		if x == nil {
			return true
		}
		b := &Branch{Fn: fn, If: is, ErrExpr: x}
		k := core.ExprStr(x)
		ord[k]++
		b.Ordinal = ord[k]
		// result arity / whether the innermost function returns an error
		var ftype *ast.FuncType
		if fl := core.InnermostFuncLit(stack); fl != nil {
			ftype = fl.Type
		} else {
			ftype = fn.Decl.Type
		}
		if inDeferredLiteral(stack) {
			b.OK, b.Why = true, "inside a deferred clean-up closure (the function's result is already determined)"
		} else if sentinelInCond(info, is.Cond, x) {
			b.OK, b.Why = true, "condition also singles out an expected error value (sentinel test)"
		} else {
			b.OK, b.Why = blockEscapes(info, fn, is, x, ftype)
		}
		out = append(out, b)
		return true
	})
	return out
}

func inDeferredLiteral(stack []ast.Node) bool {
	for i := len(stack) - 1; i >= 2; i-- {
		if fl, ok := stack[i].(*ast.FuncLit); ok {
			if call, ok := stack[i-1].(*ast.CallExpr); ok && call.Fun == ast.Expr(fl) {
				if _, ok := stack[i-2].(*ast.DeferStmt); ok {
					return true
				}
			}
			return false
		}
	}
	return false
}

func funcReturnsError(info *types.Info, ft *ast.FuncType) bool {
	if ft.Results == nil || len(ft.Results.List) == 0 {
		return false
	}
	last := ft.Results.List[len(ft.Results.List)-1]
	tv, ok := info.Types[last.Type]
	return ok && core.IsErrorType(tv.Type)
}

// blockEscapes: every path through block must end by handing the error on.
func blockEscapes(info *types.Info, fn *core.FuncRef, is *ast.IfStmt, errExpr ast.Expr, ft *ast.FuncType) (bool, string) {
	block := is.Body
	if len(block.List) == 0 {
		return false, "empty block: the error is ignored"
	}
	retErr := funcReturnsError(info, ft)
	// Look at every return inside the block (not inside nested function literals).
	bad := ""
	ast.Inspect(block, func(n ast.Node) bool {
		if _, ok := n.(*ast.FuncLit); ok {
			return false
		}
		if inner, ok := n.(*ast.IfStmt); ok && n != ast.Node(block) {
			// a nested test on the same error (sentinel) legitimises a nil return inside it
			if mentions(info, inner.Cond, errExpr) {
				// still inspect the else branch
				if inner.Else != nil {
					ast.Inspect(inner.Else, func(m ast.Node) bool { return true })
				}
				return false
			}
		}
		rs, ok := n.(*ast.ReturnStmt)
		if !ok {
			return true
		}
		if retErr {
			if len(rs.Results) == 0 {
				return true // named results
			}
			last := rs.Results[len(rs.Results)-1]
			if core.IsNilIdent(info, last) {
				bad = "returns nil although " + core.ExprStr(errExpr) + " is known non-nil"
			}
		}
		return true
	})
	if bad != "" {
		return false, bad
	}
	// `if err != nil { if !os.IsNotExist(err) { return …err }; <handle the one benign class> }`: every error but a
	// named sentinel class is returned; what remains is handled in place and execution rightly goes on
	if first, ok := block.List[0].(*ast.IfStmt); ok && first.Else == nil && len(first.Body.List) > 0 {
		if ue, ok := core.Unparen(first.Cond).(*ast.UnaryExpr); ok && ue.Op == token.NOT {
			if call, ok := core.Unparen(ue.X).(*ast.CallExpr); ok && mentions(info, call, errExpr) {
				switch core.ExprStr(call.Fun) {
				case "os.IsNotExist", "os.IsExist", "errors.Is", "os.IsPermission", "os.IsTimeout":
					if rs, ok := first.Body.List[len(first.Body.List)-1].(*ast.ReturnStmt); ok && retErr && len(rs.Results) > 0 && !core.IsNilIdent(info, rs.Results[len(rs.Results)-1]) {
						return true, "returns every error except the named class (" + core.ExprStr(call.Fun) + "), which is handled in place"
					}
				}
			}
		}
	}
	// the last statement must leave the block abnormally or record the error
	last := block.List[len(block.List)-1]
	switch x := last.(type) {
	case *ast.ReturnStmt:
		if retErr {
			return true, "returns an error"
		}
		// callback returning bool etc.: the error must have been stored
		if storesErr(info, block, errExpr) {
			return true, "stores the error and stops the iteration"
		}
		if handsToSink(info, block, errExpr) {
			return true, "hands the error to an error sink and ends the goroutine"
		}
		return false, "returns from a function without error result and does not store the error"
	case *ast.ExprStmt:
		if call, ok := x.X.(*ast.CallExpr); ok {
			name := core.ExprStr(call.Fun)
			switch name {
			case "panic", "log.Fatal", "log.Fatalf", "log.Fatalln", "os.Exit", "cobra.CheckErr":
				if name == "os.Exit" || mentions(info, call, errExpr) {
					return true, "terminates via " + name
				}
				if name == "panic" && returnedLater(info, fn, is, errExpr) {
					return true, "unwinds with a sentinel panic; the error variable is returned by the enclosing function"
				}
			}
			if mentions(info, call, errExpr) {
				return false, "only passes the error to " + name + " and carries on"
			}
		}
	case *ast.BranchStmt:
		if storesErr(info, block, errExpr) {
			return true, "stores the error and leaves the loop"
		}
		if handsToSink(info, block, errExpr) {
			return true, "hands the error to an error sink and leaves the loop"
		}
		if x.Tok == token.BREAK && returnedLater(info, fn, is, errExpr) {
			return true, "leaves the loop; the error is returned after it"
		}
		return false, x.Tok.String() + " without handing the error on"
	case *ast.SendStmt:
		if mentions(info, x.Value, errExpr) {
			return true, "sends the error on a channel"
		}
	case *ast.AssignStmt:
		if storesErr(info, block, errExpr) {
			return true, "stores the error"
		}
	}
	if storesErr(info, block, errExpr) {
		return true, "stores the error"
	}
	return false, "falls through: execution continues as if there were no error"
}

// sentinelInCond: the condition has another conjunct that inspects the same error
// (os.IsNotExist(err), errors.Is(err, …), err == io.EOF, strings.Contains(err.Error(), …)).
func sentinelInCond(info *types.Info, cond ast.Expr, errExpr ast.Expr) bool {
	var conj []ast.Expr
	var flat func(e ast.Expr)
	flat = func(e ast.Expr) {
		e = core.Unparen(e)
		if be, ok := e.(*ast.BinaryExpr); ok && be.Op == token.LAND {
			flat(be.X)
			flat(be.Y)
			return
		}
		conj = append(conj, e)
	}
	flat(cond)
	for _, c := range conj {
		if be, ok := c.(*ast.BinaryExpr); ok && be.Op == token.NEQ && (core.IsNilIdent(info, be.X) || core.IsNilIdent(info, be.Y)) {
			continue
		}
		if mentions(info, c, errExpr) {
			return true
		}
	}
	return false
}

// handsToSink: the block passes the error to a function that delivers it to the
// consumer (io.PipeWriter.CloseWithError).
func handsToSink(info *types.Info, block *ast.BlockStmt, errExpr ast.Expr) bool {
	found := false
	ast.Inspect(block, func(n ast.Node) bool {
		if call, ok := n.(*ast.CallExpr); ok {
			if f, ok := core.Callee(info, call).(*types.Func); ok && f.FullName() == "(*io.PipeWriter).CloseWithError" && mentions(info, call, errExpr) {
				found = true
			}
		}
		return !found
	})
	return found
}

// returnedLater: errExpr is an identifier that a return statement after the
// if statement (same function) hands back.
func returnedLater(info *types.Info, fn *core.FuncRef, is *ast.IfStmt, errExpr ast.Expr) bool {
	id, ok := core.Unparen(errExpr).(*ast.Ident)
	if !ok {
		return false
	}
	obj := info.Uses[id]
	found := false
	ast.Inspect(fn.Decl.Body, func(n ast.Node) bool {
		if rs, ok := n.(*ast.ReturnStmt); ok && rs.Pos() > is.End() {
			for _, r := range rs.Results {
				if core.ReadsObj(info, r, obj) {
					found = true
				}
			}
		}
		return !found
	})
	return found
}

// storesErr: block contains an assignment whose RHS mentions errExpr (outErr = err,
// msg := X{err: err}; ch <- msg) or a send mentioning it.
func storesErr(info *types.Info, block *ast.BlockStmt, errExpr ast.Expr) bool {
	found := false
	ast.Inspect(block, func(n ast.Node) bool {
		switch x := n.(type) {
		case *ast.AssignStmt:
			for _, r := range x.Rhs {
				if mentions(info, r, errExpr) {
					found = true
				}
			}
			// `out.err = fmt.Errorf(…)`: a new error stored in an error-typed field
			if x.Tok == token.ASSIGN && len(x.Lhs) == 1 && len(x.Rhs) == 1 {
				if sel, ok := x.Lhs[0].(*ast.SelectorExpr); ok {
					if tv, ok := info.Types[sel]; ok && core.IsErrorType(tv.Type) && !core.IsNilIdent(info, x.Rhs[0]) {
						found = true
					}
				}
			}
		case *ast.SendStmt:
			if mentions(info, x.Value, errExpr) {
				found = true
			}
		case *ast.ReturnStmt:
			// `return result{line: n, err: fmt.Errorf(…)}`: the error leaves in an error-typed field of the result
			for _, r := range x.Results {
				cl, ok := core.Unparen(r).(*ast.CompositeLit)
				if !ok {
					if ue, isAddr := core.Unparen(r).(*ast.UnaryExpr); isAddr && ue.Op == token.AND {
						cl, ok = core.Unparen(ue.X).(*ast.CompositeLit)
					}
				}
				if !ok {
					continue
				}
				for _, el := range cl.Elts {
					if kv, ok := el.(*ast.KeyValueExpr); ok {
						if tv, ok := info.Types[kv.Value]; ok && core.IsErrorType(tv.Type) && !core.IsNilIdent(info, kv.Value) {
							found = true
						}
					}
				}
			}
		}
		return !found
	})
	return found
}
