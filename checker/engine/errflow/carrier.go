package errflow

import (
	"go/ast"
	"go/token"
	"go/types"

	"golang.org/x/tools/go/cfg"

	"octoverif/core"
)

func errFieldFirstCFG(info *types.Info, g *cfg.CFG, def ast.Node, obj types.Object, fld string) (bool, string) {
	var startB *cfg.Block
	startI := -1
	for _, b := range g.Blocks {
		for i, n := range b.Nodes {
			if n == def {
				startB, startI = b, i
			}
			// range statements and comm clauses: go/cfg stores parts of them; match by containment of the defining ident
			if startB == nil {
				if as, ok := n.(*ast.AssignStmt); ok {
					for _, l := range as.Lhs {
						if id, ok := l.(*ast.Ident); ok && info.Defs[id] == obj {
							startB, startI = b, i
						}
					}
				}
			}
		}
	}
	if startB == nil {
		// e.g. range value: defined by the loop header; start at the first block that reads it
		for _, b := range g.Blocks {
			for i, n := range b.Nodes {
				if core.ReadsObj(info, n, obj) && startB == nil {
					startB, startI = b, i-1
				}
			}
		}
	}
	if startB == nil {
		return true, "never read"
	}
	visited := map[*cfg.Block]bool{}
	var walk func(b *cfg.Block, from int) (bool, string)
	walk = func(b *cfg.Block, from int) (bool, string) {
		for i := from; i < len(b.Nodes); i++ {
			n := b.Nodes[i]
			kind := firstUse(info, n, obj, fld)
			switch kind {
			case 1:
				return true, ""
			case 2:
				return false, "field other than ." + fld + " is used before ." + fld + " is examined"
			}
		}
		for _, s := range b.Succs {
			if visited[s] {
				continue
			}
			visited[s] = true
			if ok, why := walk(s, 0); !ok {
				return false, why
			}
		}
		return true, ""
	}
	ok, why := walk(startB, startI+1)
	if ok {
		why = "." + fld + " is examined before any other use on every path"
	}
	return ok, why
}

// firstUse: 0 = node does not use obj, 1 = the first use (source order) is obj.<fld>, 2 = another use comes first.
func firstUse(info *types.Info, n ast.Node, obj types.Object, fld string) int {
	res := 0
	var firstPos token.Pos = token.NoPos
	ast.Inspect(n, func(m ast.Node) bool {
		switch x := m.(type) {
		case *ast.SelectorExpr:
			if id, ok := x.X.(*ast.Ident); ok && info.Uses[id] == obj {
				if firstPos == token.NoPos || x.Pos() < firstPos {
					firstPos = x.Pos()
					if x.Sel.Name == fld {
						res = 1
					} else {
						res = 2
					}
				}
				return false
			}
		case *ast.Ident:
			if info.Uses[x] == obj {
				if firstPos == token.NoPos || x.Pos() < firstPos {
					firstPos = x.Pos()
					res = 2
				}
			}
		}
		return true
	})
	return res
}
