package errflow

import (
	"fmt"
	"go/ast"
	"go/token"
	"go/types"

	"octoverif/core"
	"octoverif/engine/flow"
)

// Bodies yields the function's own body and every function literal body in it,
// each to be analysed as a separate CFG.
func Bodies(fn *core.FuncRef) []*ast.BlockStmt {
	out := []*ast.BlockStmt{fn.Decl.Body}
	ast.Inspect(fn.Decl.Body, func(n ast.Node) bool {
		if fl, ok := n.(*ast.FuncLit); ok {
			out = append(out, fl.Body)
		}
		return true
	})
	return out
}

// nilTest decomposes `X != nil` / `X == nil` on an error-typed identifier.
func nilTest(info *types.Info, cond ast.Expr) (obj types.Object, neq bool, ok bool) {
	be, isBin := core.Unparen(cond).(*ast.BinaryExpr)
	if !isBin || (be.Op != token.NEQ && be.Op != token.EQL) {
		return nil, false, false
	}
	var x ast.Expr
	if core.IsNilIdent(info, be.Y) {
		x = be.X
	} else if core.IsNilIdent(info, be.X) {
		x = be.Y
	} else {
		return nil, false, false
	}
	id, isId := core.Unparen(x).(*ast.Ident)
	if !isId {
		return nil, false, false
	}
	o := info.Uses[id]
	if o == nil || !core.IsErrorType(o.Type()) {
		return nil, false, false
	}
	return o, be.Op == token.NEQ, true
}

type NilReturn struct {
	Fn     *core.FuncRef
	Ret    *ast.ReturnStmt
	Var    string
	Tested string
}

// KnownNilReturns (ERR3): a return statement inside the block guarded by
// `X != nil` whose error result is a *different* variable that is known to be
// nil on every path reaching the return (it was tested `!= nil` and the
// function returned on that edge, with no assignment since).
func KnownNilReturns(p *core.Program, fn *core.FuncRef) []*NilReturn {
	info := fn.Info()
	var out []*NilReturn
	for _, body := range Bodies(fn) {
		// returns lexically inside an `if X != nil` block, X an error expression
		guarded := map[*ast.ReturnStmt]ast.Expr{}
		var scan func(n ast.Node)
		scan = func(n ast.Node) {
			ast.Inspect(n, func(m ast.Node) bool {
				if fl, ok := m.(*ast.FuncLit); ok && fl.Body != body {
					return false
				}
				if is, ok := m.(*ast.IfStmt); ok {
					if x := nonNilTested(info, is.Cond); x != nil {
						ast.Inspect(is.Body, func(k ast.Node) bool {
							if _, ok := k.(*ast.FuncLit); ok {
								return false
							}
							if rs, ok := k.(*ast.ReturnStmt); ok {
								if _, dup := guarded[rs]; !dup {
									guarded[rs] = x
								}
							}
							return true
						})
					}
				}
				return true
			})
		}
		scan(body)
		if len(guarded) == 0 {
			continue
		}
		g := flow.New(body)
		prob := flow.Problem{
			Transfer: func(n ast.Node, in flow.Facts) flow.Facts {
				// any assignment to an error variable kills its nil-knownness
				ast.Inspect(n, func(m ast.Node) bool {
					if _, ok := m.(*ast.FuncLit); ok {
						// a closure may assign captured variables: kill everything it writes
						ast.Inspect(m, func(k ast.Node) bool {
							if as, ok := k.(*ast.AssignStmt); ok {
								for _, l := range as.Lhs {
									if id, ok := l.(*ast.Ident); ok {
										delete(in, objKey(info, id))
									}
								}
							}
							return true
						})
						return false
					}
					switch x := m.(type) {
					case *ast.AssignStmt:
						for _, l := range x.Lhs {
							if id, ok := l.(*ast.Ident); ok {
								delete(in, objKey(info, id))
							}
						}
					case *ast.UnaryExpr:
						if x.Op == token.AND {
							if id, ok := x.X.(*ast.Ident); ok {
								delete(in, objKey(info, id))
							}
						}
					}
					return true
				})
				return in
			},
			Edge: func(cond ast.Expr, succ int, in flow.Facts) flow.Facts {
				if cond == nil {
					return in
				}
				if o, neq, ok := nilTest(info, cond); ok {
					k := fmt.Sprintf("%p", o)
					// succ 0 = condition true
					if (neq && succ == 1) || (!neq && succ == 0) {
						in[k] = true
					} else {
						delete(in, k)
					}
				}
				return in
			},
			Visit: func(n ast.Node, before flow.Facts) {
				rs, ok := n.(*ast.ReturnStmt)
				if !ok || len(rs.Results) == 0 {
					return
				}
				x, isGuarded := guarded[rs]
				if !isGuarded {
					return
				}
				last := core.Unparen(rs.Results[len(rs.Results)-1])
				id, ok := last.(*ast.Ident)
				if !ok {
					return
				}
				o := info.Uses[id]
				if o == nil || !core.IsErrorType(o.Type()) {
					return
				}
				if core.ExprStr(x) == id.Name {
					return
				}
				if before[fmt.Sprintf("%p", o)] {
					out = append(out, &NilReturn{Fn: fn, Ret: rs, Var: id.Name, Tested: core.ExprStr(x)})
				}
			},
		}
		flow.Run(g, flow.Facts{}, prob)
	}
	return out
}

func objKey(info *types.Info, id *ast.Ident) string {
	o := info.Uses[id]
	if o == nil {
		o = info.Defs[id]
	}
	return fmt.Sprintf("%p", o)
}

// ---------------------------------------------------------------------------
// ERR5: scan loops

type ScanLoop struct {
	Fn      *core.FuncRef
	Loop    *ast.ForStmt
	Scanner string
	ErrCall *ast.CallExpr // the X.Err() call after the loop, or nil
}

// ScanLoops finds `for X.Scan() …` loops over a *bufio.Scanner and the X.Err()
// call that must follow the loop in the same function body.
func ScanLoops(p *core.Program, fn *core.FuncRef) []*ScanLoop {
	info := fn.Info()
	var out []*ScanLoop
	for _, body := range Bodies(fn) {
		ast.Inspect(body, func(n ast.Node) bool {
			if fl, ok := n.(*ast.FuncLit); ok && fl.Body != body {
				return false
			}
			fs, ok := n.(*ast.ForStmt)
			if !ok || fs.Cond == nil {
				return true
			}
			var recv types.Object
			ast.Inspect(fs.Cond, func(m ast.Node) bool {
				call, ok := m.(*ast.CallExpr)
				if !ok {
					return true
				}
				if f, ok := core.Callee(info, call).(*types.Func); ok && f.FullName() == "(*bufio.Scanner).Scan" {
					if sel, ok := call.Fun.(*ast.SelectorExpr); ok {
						if id, ok := sel.X.(*ast.Ident); ok {
							recv = info.Uses[id]
						}
					}
				}
				return true
			})
			if recv == nil {
				return true
			}
			sl := &ScanLoop{Fn: fn, Loop: fs, Scanner: recv.Name()}
			ast.Inspect(body, func(m ast.Node) bool {
				if fl, ok := m.(*ast.FuncLit); ok && fl.Body != body {
					return false
				}
				call, ok := m.(*ast.CallExpr)
				if !ok || call.Pos() < fs.End() {
					return true
				}
				if f, ok := core.Callee(info, call).(*types.Func); ok && f.FullName() == "(*bufio.Scanner).Err" {
					if sel, ok := call.Fun.(*ast.SelectorExpr); ok {
						if id, ok := sel.X.(*ast.Ident); ok && info.Uses[id] == recv && sl.ErrCall == nil {
							sl.ErrCall = call
						}
					}
				}
				return true
			})
			out = append(out, sl)
			return true
		})
	}
	return out
}

// ---------------------------------------------------------------------------
// ERR6: values carrying an error field must have that field read first

type Carrier struct {
	Fn    *core.FuncRef
	Def   ast.Node
	Var   string
	Type  string
	Field string
	OK    bool
	Why   string
}

func errField(t types.Type) (string, bool) {
	st, ok := t.Underlying().(*types.Struct)
	if !ok {
		return "", false
	}
	for i := 0; i < st.NumFields(); i++ {
		if core.IsErrorType(st.Field(i).Type()) {
			return st.Field(i).Name(), true
		}
	}
	return "", false
}

func inModule(t types.Type) bool {
	n, ok := t.(*types.Named)
	if !ok {
		return false
	}
	pk := n.Obj().Pkg()
	return pk != nil && (pk.Path() == core.ModPath || len(pk.Path()) > len(core.ModPath) && pk.Path()[:len(core.ModPath)+1] == core.ModPath+"/")
}

// Carriers finds local variables of a module-declared struct type that has an
// error field and that are *received* (channel receive, range, index, call
// result — not built with a composite literal) and checks that on every path
// the first field read is the error field.
func Carriers(p *core.Program, fn *core.FuncRef) []*Carrier {
	info := fn.Info()
	var out []*Carrier
	for _, body := range Bodies(fn) {
		g := flow.New(body)
		type def struct {
			node ast.Node
			obj  types.Object
			fld  string
		}
		var defs []def
		consider := func(node ast.Node, id *ast.Ident, rhs ast.Expr) {
			if id == nil || id.Name == "_" {
				return
			}
			o := info.Defs[id]
			if o == nil {
				return
			}
			if !inModule(o.Type()) {
				return
			}
			f, ok := errField(o.Type())
			if !ok {
				return
			}
			if rhs != nil {
				switch r := core.Unparen(rhs).(type) {
				case *ast.CompositeLit:
					return
				case *ast.UnaryExpr:
					if r.Op != token.ARROW {
						return
					}
				}
			}
			defs = append(defs, def{node, o, f})
		}
		ast.Inspect(body, func(n ast.Node) bool {
			if fl, ok := n.(*ast.FuncLit); ok && fl.Body != body {
				return false
			}
			switch x := n.(type) {
			case *ast.AssignStmt:
				if x.Tok == token.DEFINE {
					for i, l := range x.Lhs {
						id, _ := l.(*ast.Ident)
						var rhs ast.Expr
						if len(x.Rhs) == len(x.Lhs) {
							rhs = x.Rhs[i]
						} else if len(x.Rhs) == 1 {
							rhs = x.Rhs[0]
						}
						consider(x, id, rhs)
					}
				}
			case *ast.RangeStmt:
				if x.Tok == token.DEFINE {
					if id, ok := x.Value.(*ast.Ident); ok {
						consider(x, id, nil)
					}
					if id, ok := x.Key.(*ast.Ident); ok {
						// range over channel: key is the element
						consider(x, id, nil)
					}
				}
			}
			return true
		})
		for _, d := range defs {
			cr := &Carrier{Fn: fn, Def: d.node, Var: d.obj.Name(), Field: d.fld, Type: types.TypeString(d.obj.Type(), func(*types.Package) string { return "" })}
			cr.OK, cr.Why = errFieldFirstCFG(info, g, d.node, d.obj, d.fld)
			out = append(out, cr)
		}
	}
	return out
}

// ---------------------------------------------------------------------------
// ERR6b: messages that may carry an error must not be discarded unread

type Discard struct {
	Fn   *core.FuncRef
	Pos  token.Pos
	What string
	Type string
}

// DiscardedCarriers finds receives from channels whose element type carries an
// error field where the received value is thrown away (`for range ch {}`,
// `<-ch` as a statement, `_ = <-ch`, `case <-ch:`).
func DiscardedCarriers(p *core.Program, fn *core.FuncRef) (out []*Discard, nRecv int) {
	info := fn.Info()
	carrierElem := func(e ast.Expr) (string, bool) {
		tv, ok := info.Types[e]
		if !ok {
			return "", false
		}
		ch, ok := tv.Type.Underlying().(*types.Chan)
		if !ok {
			return "", false
		}
		el := ch.Elem()
		if sl, ok := el.Underlying().(*types.Slice); ok {
			el = sl.Elem()
		}
		if _, ok := errField(el); !ok {
			return "", false
		}
		return types.TypeString(el, func(*types.Package) string { return "" }), true
	}
	core.WalkStack(fn.Decl.Body, func(n ast.Node, stack []ast.Node) bool {
		switch x := n.(type) {
		case *ast.RangeStmt:
			if t, ok := carrierElem(x.X); ok {
				nRecv++
				id, _ := x.Key.(*ast.Ident)
				if x.Key == nil || (id != nil && id.Name == "_") {
					out = append(out, &Discard{Fn: fn, Pos: x.Pos(), What: "for range " + core.ExprStr(x.X), Type: t})
				}
			}
		case *ast.UnaryExpr:
			if x.Op != token.ARROW {
				return true
			}
			t, ok := carrierElem(x.X)
			if !ok {
				return true
			}
			nRecv++
			if len(stack) == 0 {
				return true
			}
			switch par := stack[len(stack)-1].(type) {
			case *ast.ExprStmt:
				out = append(out, &Discard{Fn: fn, Pos: x.Pos(), What: "<-" + core.ExprStr(x.X) + " as a statement", Type: t})
			case *ast.AssignStmt:
				if id, ok := par.Lhs[0].(*ast.Ident); ok && id.Name == "_" {
					out = append(out, &Discard{Fn: fn, Pos: x.Pos(), What: "_ = <-" + core.ExprStr(x.X), Type: t})
				}
			}
		}
		return true
	})
	return out, nRecv
}
