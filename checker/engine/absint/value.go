// Package absint is a small path-sensitive abstract interpreter over Go syntax
// trees with finite abstract domains. Rules bind opaque terms (payload fields,
// results of Compare/Evaluate, …) to abstract values, enumerate abstract cases and
// compare every resulting outcome with a reference. Nothing is executed: the
// interpreter folds constants, forks on conditions it cannot decide and records
// calls as events. Loops are explored as a product with a rule-supplied reference
// automaton until the (implementation state × reference state) pairs repeat.
package absint

import (
	"fmt"
	"go/constant"
	"go/token"
	"sort"
	"strings"
)

// Val is an abstract value.
type Val interface{ Canon() string }

// Const is a known constant (bool, int, string, float).
type Const struct{ V constant.Value }

func (c Const) Canon() string { return c.V.ExactString() }

// Nil is the nil value.
type Nil struct{}

func (Nil) Canon() string { return "nil" }

// Sym is an opaque term identified by its name.
type Sym struct {
	Name   string
	NotNil bool // known to differ from nil (a non-nil error, an allocated pointer)
	NonNeg bool // an integer known to be ≥ 0 (the key of a range over a slice, array, string or integer)
}

func (s Sym) Canon() string { return s.Name }

// Ref points to a heap object (struct value or pointer to struct); structs are
// handled by reference and copied explicitly on value assignment.
type Ref struct{ ID int }

func (r Ref) Canon() string { return fmt.Sprintf("obj#%d", r.ID) }

// List is a slice literal / tracked slice of known length.
type List struct{ Elems []Val }

func (l List) Canon() string {
	parts := make([]string, len(l.Elems))
	for i, e := range l.Elems {
		parts[i] = e.Canon()
	}
	return "[" + strings.Join(parts, ",") + "]"
}

// Appended is an opaque slice with known elements appended to it. Appending an element
// that is already present (same canonical form) is idempotent, so that loop states repeat.
type Appended struct {
	Base  Val
	Elems []Val
}

func (a Appended) Canon() string {
	parts := make([]string, len(a.Elems))
	for i, e := range a.Elems {
		parts[i] = e.Canon()
	}
	b := "nil"
	if a.Base != nil {
		b = a.Base.Canon()
	}
	return "append(" + b + ";[" + strings.Join(parts, ",") + "])"
}

// Spread marks a slice passed with `...`.
type Spread struct{ V Val }

func (s Spread) Canon() string { return s.V.Canon() + "…" }

// Tuple is a multi-value result.
type Tuple struct{ Elems []Val }

func (t Tuple) Canon() string { return List{t.Elems}.Canon() }

// Closure is a function literal with access to the defining environment.
type Closure struct {
	Lit  interface{} // *ast.FuncLit
	Name string
}

func (c Closure) Canon() string { return "closure:" + c.Name }

// Obj is a heap object: a struct with named fields.
type Obj struct {
	Type   string
	Fields map[string]Val
}

func Bool(b bool) Val   { return Const{constant.MakeBool(b)} }
func Int(i int64) Val   { return Const{constant.MakeInt64(i)} }
func Str(s string) Val  { return Const{constant.MakeString(s)} }
func S(name string) Val { return Sym{Name: name} }

// NN is an opaque term known to be non-nil.
func NN(name string) Val { return Sym{Name: name, NotNil: true} }
func IsTrue(v Val) bool {
	c, ok := v.(Const)
	return ok && c.V.Kind() == constant.Bool && constant.BoolVal(c.V)
}
func IsFalse(v Val) bool {
	c, ok := v.(Const)
	return ok && c.V.Kind() == constant.Bool && !constant.BoolVal(c.V)
}
func IsConst(v Val) bool  { _, ok := v.(Const); return ok }
func IsNilVal(v Val) bool { _, ok := v.(Nil); return ok }

func AsInt(v Val) (int64, bool) {
	c, ok := v.(Const)
	if !ok || c.V.Kind() != constant.Int {
		return 0, false
	}
	return constant.Int64Val(c.V)
}

// Event is an observable effect on a path: a call the interpreter did not
// inline, a send, a panic.
type Event struct {
	Name string
	Args []Val
	Pos  token.Pos
}

func (e Event) String() string {
	parts := make([]string, len(e.Args))
	for i, a := range e.Args {
		if a == nil {
			parts[i] = "?"
		} else {
			parts[i] = a.Canon()
		}
	}
	return e.Name + "(" + strings.Join(parts, ", ") + ")"
}

// Outcome is how one explored path ended.
type Outcome struct {
	Kind    string // "return", "panic", "fallthrough" (end of body), "loop" (cut: state pair repeated); "break"/"continue" when a loop body is run on its own
	Label   string // of a break/continue outcome
	Values  []Val
	Events  []Event
	Assumed map[string]bool // conditions the path assumed (forks)
	Trace   []string        // loop iteration cases taken, in order
	Ref     string          // reference automaton state at the end
	Heap    map[int]*Obj
	Env     map[string]Val // final values of named variables (by name, innermost wins)
	Pos     token.Pos
}

func (o *Outcome) String() string {
	vs := make([]string, len(o.Values))
	for i, v := range o.Values {
		vs[i] = o.Show(v)
	}
	ev := make([]string, len(o.Events))
	for i, e := range o.Events {
		ev[i] = e.String()
	}
	as := make([]string, 0, len(o.Assumed))
	for k, v := range o.Assumed {
		as = append(as, fmt.Sprintf("%s=%v", k, v))
	}
	sort.Strings(as)
	s := o.Kind + " " + strings.Join(vs, ", ")
	if len(ev) > 0 {
		s += " events[" + strings.Join(ev, "; ") + "]"
	}
	if len(o.Trace) > 0 {
		s += " trace[" + strings.Join(o.Trace, ",") + "]"
	}
	if len(as) > 0 {
		s += " assuming{" + strings.Join(as, ", ") + "}"
	}
	return s
}

// Show renders a value, expanding heap objects.
func (o *Outcome) Show(v Val) string { return showVal(v, o.Heap, 0) }

func showVal(v Val, heap map[int]*Obj, depth int) string {
	if v == nil {
		return "?"
	}
	if r, ok := v.(Ref); ok && heap != nil && depth < 4 {
		if ob := heap[r.ID]; ob != nil {
			ks := make([]string, 0, len(ob.Fields))
			for k := range ob.Fields {
				ks = append(ks, k)
			}
			sort.Strings(ks)
			parts := make([]string, len(ks))
			for i, k := range ks {
				parts[i] = k + ":" + showVal(ob.Fields[k], heap, depth+1)
			}
			return ob.Type + "{" + strings.Join(parts, ", ") + "}"
		}
	}
	if l, ok := v.(List); ok {
		parts := make([]string, len(l.Elems))
		for i, e := range l.Elems {
			parts[i] = showVal(e, heap, depth+1)
		}
		return "[" + strings.Join(parts, ",") + "]"
	}
	return v.Canon()
}

// Field returns the field of a heap object value in an outcome.
func (o *Outcome) Field(v Val, name string) Val {
	if r, ok := v.(Ref); ok {
		if ob := o.Heap[r.ID]; ob != nil {
			return ob.Fields[name]
		}
	}
	return nil
}
