package absint

import (
	"regexp"
	"fmt"
	"go/ast"
	"go/constant"
	"go/token"
	"go/types"
	"os"
	"strings"

	"octoverif/core"
)

var debugForks = os.Getenv("OCTOVERIF_TRACE") != ""

type panicVal struct{ v Val }

func (p panicVal) Canon() string { return "panic(" + p.v.Canon() + ")" }

type condRes struct {
	st *State
	b  bool
}

type listRes struct {
	st   *State
	vals []Val
}

func (in *Interp) evalList(exprs []ast.Expr, st *State) []listRes {
	cur := []listRes{{st: st}}
	for _, e := range exprs {
		var nxt []listRes
		for _, c := range cur {
			for _, r := range in.eval(e, c.st) {
				vals := append(append([]Val(nil), c.vals...), r.v)
				nxt = append(nxt, listRes{st: r.st, vals: vals})
			}
		}
		cur = nxt
	}
	return cur
}

func one(st *State, v Val) []ev { return []ev{{st, v}} }

func (in *Interp) eval(e ast.Expr, st *State) []ev {
	info := in.info()
	// constant folding by the type checker
	if tv, ok := info.Types[e]; ok && tv.Value != nil {
		return one(st, Const{tv.Value})
	}
	switch x := e.(type) {
	case *ast.ParenExpr:
		return in.eval(x.X, st)
	case *ast.BasicLit:
		return one(st, Sym{Name: x.Value})
	case *ast.Ident:
		if x.Name == "_" {
			return one(st, Sym{Name: "_"})
		}
		o := info.Uses[x]
		if o == nil {
			o = info.Defs[x]
		}
		switch ob := o.(type) {
		case *types.Nil:
			return one(st, Nil{})
		case *types.Const:
			return one(st, Const{ob.Val()})
		case *types.Var:
			if v, ok := st.env[ob]; ok {
				return one(st, v)
			}
			if in.Hooks.Ident != nil {
				if v, ok := in.Hooks.Ident(st, ob); ok {
					return one(st, v)
				}
			}
			// a captured struct defined once by a literal: an object with the literal's never-written fields
			if in.Hooks.FreeStruct != nil && !in.resolvingFree[ob] {
				if lit, stable := in.Hooks.FreeStruct(ob); lit != nil {
					if in.resolvingFree == nil {
						in.resolvingFree = map[*types.Var]bool{}
					}
					in.resolvingFree[ob] = true
					res := in.eval(lit, st)
					delete(in.resolvingFree, ob)
					if len(res) == 1 {
						if r, ok := res[0].v.(Ref); ok {
							if o := res[0].st.heap[r.ID]; o != nil {
								for f := range o.Fields {
									if !stable[f] {
										o.Fields[f] = Sym{Name: ob.Name() + "." + f}
									}
								}
							}
							res[0].st.env[ob] = r
							return res
						}
					}
				}
			}
			// a captured variable that is a name for a pure expression of the enclosing function (defined once,
			// from operands that are themselves never reassigned): its definition is evaluated in its place
			if in.Hooks.FreeVar != nil && !in.resolvingFree[ob] {
				if def := in.Hooks.FreeVar(ob); def != nil {
					if in.resolvingFree == nil {
						in.resolvingFree = map[*types.Var]bool{}
					}
					in.resolvingFree[ob] = true
					res := in.eval(def, st)
					delete(in.resolvingFree, ob)
					if len(res) == 1 {
						return res
					}
				}
			}
			// free variable (captured or package level)
			name := ob.Name()
			if ob.Pkg() != nil && ob.Parent() == ob.Pkg().Scope() {
				name = ob.Pkg().Name() + "." + name
			}
			return one(st, Sym{Name: name})
		case *types.Func:
			if in.funcSyms == nil {
				in.funcSyms = map[string]*types.Func{}
			}
			in.funcSyms["func:"+ob.FullName()] = ob
			return one(st, Sym{Name: "func:" + ob.FullName()})
		case *types.Builtin:
			return one(st, Sym{Name: "builtin:" + ob.Name()})
		case *types.TypeName:
			return one(st, Sym{Name: "type:" + ob.Name()})
		}
		return one(st, Sym{Name: x.Name})
	case *ast.FuncLit:
		return one(st, Closure{Lit: x, Name: fmt.Sprintf("lit@%d", x.Pos())})
	case *ast.SelectorExpr:
		// qualified identifier
		if id, ok := x.X.(*ast.Ident); ok {
			if _, isPkg := info.Uses[id].(*types.PkgName); isPkg {
				o := info.Uses[x.Sel]
				switch ob := o.(type) {
				case *types.Const:
					return one(st, Const{ob.Val()})
				case *types.Var:
					if in.Hooks.Ident != nil {
						if v, ok := in.Hooks.Ident(st, ob); ok {
							return one(st, v)
						}
					}
					return one(st, Sym{Name: id.Name + "." + x.Sel.Name})
				case *types.Func:
					return one(st, Sym{Name: "func:" + ob.FullName()})
				}
				return one(st, Sym{Name: id.Name + "." + x.Sel.Name})
			}
		}
		var out []ev
		for _, b := range in.eval(x.X, st) {
			out = append(out, ev{b.st, in.field(b.st, b.v, x.Sel.Name, x)})
		}
		return out
	case *ast.StarExpr:
		var out []ev
		for _, b := range in.eval(x.X, st) {
			switch v := b.v.(type) {
			case Ref:
				out = append(out, ev{b.st, v})
			case ptrTo:
				out = append(out, ev{b.st, v.load(b.st)})
			default:
				out = append(out, ev{b.st, Sym{Name: "*" + b.v.Canon()}})
			}
		}
		return out
	case *ast.UnaryExpr:
		switch x.Op {
		case token.NOT:
			var out []ev
			for _, cb := range in.cond(x.X, st) {
				out = append(out, ev{cb.st, Bool(!cb.b)})
			}
			return out
		case token.SUB:
			var out []ev
			for _, b := range in.eval(x.X, st) {
				if c, ok := b.v.(Const); ok {
					out = append(out, ev{b.st, Const{constant.UnaryOp(token.SUB, c.V, 0)}})
				} else {
					out = append(out, ev{b.st, Sym{Name: "(-" + b.v.Canon() + ")"}})
				}
			}
			return out
		case token.AND:
			// &T{…} → the object itself; &x.f → pointer to a field; &x → pointer to variable
			switch inner := core.Unparen(x.X).(type) {
			case *ast.CompositeLit:
				return in.eval(inner, st)
			case *ast.SelectorExpr:
				var out []ev
				for _, b := range in.eval(inner.X, st) {
					if r, ok := b.v.(Ref); ok {
						out = append(out, ev{b.st, ptrTo{ref: r, field: inner.Sel.Name}})
					} else {
						out = append(out, ev{b.st, Sym{Name: "&" + b.v.Canon() + "." + inner.Sel.Name}})
					}
				}
				return out
			case *ast.Ident:
				if o, ok := info.Uses[inner].(*types.Var); ok {
					if v, ok := st.env[o]; ok {
						if r, isRef := v.(Ref); isRef {
							return one(st, r)
						}
					}
					return one(st, ptrTo{obj: o})
				}
			}
			var out []ev
			for _, b := range in.eval(x.X, st) {
				out = append(out, ev{b.st, Sym{Name: "&" + b.v.Canon()}})
			}
			return out
		case token.ARROW:
			var out []ev
			for _, b := range in.eval(x.X, st) {
				b.st.Emit("recv "+core.ExprStr(x.X), x.Pos())
				out = append(out, ev{b.st, Sym{Name: "<-" + b.v.Canon()}})
			}
			return out
		}
		in.undecided(x.Pos(), "unary %s", x.Op)
	case *ast.BinaryExpr:
		switch x.Op {
		case token.LAND, token.LOR, token.EQL, token.NEQ, token.LSS, token.LEQ, token.GTR, token.GEQ:
			var out []ev
			for _, cb := range in.cond(x, st) {
				out = append(out, ev{cb.st, Bool(cb.b)})
			}
			return out
		}
		var out []ev
		for _, l := range in.eval(x.X, st) {
			for _, r := range in.eval(x.Y, l.st) {
				if in.Hooks.Binary != nil {
					in.Hooks.Binary(r.st, x, l.v, r.v)
				}
				out = append(out, ev{r.st, in.arith(r.st, x.Op, l.v, r.v, x.Pos())})
			}
		}
		return out
	case *ast.CallExpr:
		return in.call(x, st)
	case *ast.IndexExpr:
		var out []ev
		for _, b := range in.eval(x.X, st) {
			for _, i := range in.eval(x.Index, b.st) {
				if in.Hooks.Access != nil {
					in.Hooks.Access(i.st, x, b.v, i.v, nil, false)
				}
				out = append(out, ev{i.st, in.index(i.st, b.v, i.v)})
			}
		}
		return out
	case *ast.SliceExpr:
		var out []ev
		for _, b := range in.eval(x.X, st) {
			los := []ev{{b.st, nil}}
			if x.Low != nil {
				los = in.eval(x.Low, b.st)
			}
			for _, lo := range los {
				his := []ev{{lo.st, nil}}
				if x.High != nil {
					his = in.eval(x.High, lo.st)
				}
				for _, hi := range his {
					if in.Hooks.Access != nil {
						in.Hooks.Access(hi.st, x, b.v, lo.v, hi.v, true)
					}
					loS, hiS := "", ""
					if lo.v != nil {
						loS = lo.v.Canon()
					}
					if hi.v != nil {
						hiS = hi.v.Canon()
					}
					out = append(out, ev{hi.st, Sym{Name: b.v.Canon() + "[" + loS + ":" + hiS + "]"}})
				}
			}
		}
		return out
	case *ast.CompositeLit:
		return in.composite(x, st)
	case *ast.TypeAssertExpr:
		var out []ev
		for _, b := range in.eval(x.X, st) {
			typ := core.ExprStr(x.Type)
			if in.Hooks.Assert != nil {
				if v, _, known := in.Hooks.Assert(b.st, b.v, typ); known {
					out = append(out, ev{b.st, v})
					continue
				}
			}
			out = append(out, ev{b.st, b.v})
		}
		return out
	case *ast.KeyValueExpr:
		return in.eval(x.Value, st)
	case *ast.ArrayType, *ast.MapType, *ast.ChanType, *ast.FuncType, *ast.StructType, *ast.InterfaceType:
		return one(st, Sym{Name: "type:" + core.ExprStr(x)})
	}
	in.undecided(e.Pos(), "unsupported expression %T", e)
	return nil
}

// ptrTo is a pointer to a local variable or to a field of a heap object.
type ptrTo struct {
	obj   types.Object
	ref   Ref
	field string
}

func (p ptrTo) Canon() string {
	if p.obj != nil {
		return "&" + p.obj.Name()
	}
	return "&" + p.ref.Canon() + "." + p.field
}

func (p ptrTo) load(st *State) Val {
	if p.obj != nil {
		if v, ok := st.env[p.obj]; ok {
			return v
		}
		return Sym{Name: p.obj.Name()}
	}
	if ob := st.heap[p.ref.ID]; ob != nil {
		if v, ok := ob.Fields[p.field]; ok {
			return v
		}
	}
	return Sym{Name: "*" + p.Canon()}
}

func (in *Interp) field(st *State, base Val, sel string, at ast.Node) Val {
	switch b := base.(type) {
	case Ref:
		ob := st.heap[b.ID]
		if ob != nil {
			if v, ok := ob.Fields[sel]; ok {
				return v
			}
			// embedded struct promotion
			for _, fv := range ob.Fields {
				if r, ok := fv.(Ref); ok {
					if inner := st.heap[r.ID]; inner != nil {
						if v, ok := inner.Fields[sel]; ok {
							return v
						}
					}
				}
			}
		}
		if in.Hooks.Field != nil {
			if v, ok := in.Hooks.Field(st, base, sel); ok {
				return v
			}
		}
		// method value or unknown field of a tracked object
		return Sym{Name: b.Canon() + "." + sel}
	case ptrTo:
		return in.field(st, b.load(st), sel, at)
	}
	if in.Hooks.Field != nil {
		if v, ok := in.Hooks.Field(st, base, sel); ok {
			return v
		}
	}
	// a field written earlier on this path through the same (symbolic) base
	if v, ok := st.symFields[base.Canon()+"."+sel]; ok && v != nil {
		return v
	}
	return Sym{Name: base.Canon() + "." + sel}
}

func (in *Interp) index(st *State, x, i Val) Val {
	if in.Hooks.Index != nil {
		if v, ok := in.Hooks.Index(st, x, i); ok {
			return v
		}
	}
	if l, ok := x.(List); ok {
		if k, ok := AsInt(i); ok && k >= 0 && int(k) < len(l.Elems) {
			return l.Elems[k]
		}
	}
	return Sym{Name: x.Canon() + "[" + i.Canon() + "]"}
}

func (in *Interp) composite(x *ast.CompositeLit, st *State) []ev {
	info := in.info()
	tv := info.Types[x]
	t := tv.Type
	if t == nil {
		in.undecided(x.Pos(), "untyped composite literal")
	}
	switch u := t.Underlying().(type) {
	case *types.Struct:
		cur := []listRes{{st: st}}
		var names []string
		for i, el := range x.Elts {
			var ve ast.Expr = el
			if kv, ok := el.(*ast.KeyValueExpr); ok {
				names = append(names, kv.Key.(*ast.Ident).Name)
				ve = kv.Value
			} else {
				names = append(names, u.Field(i).Name())
			}
			var nxt []listRes
			for _, c := range cur {
				for _, r := range in.eval(ve, c.st) {
					nxt = append(nxt, listRes{st: r.st, vals: append(append([]Val(nil), c.vals...), r.v)})
				}
			}
			cur = nxt
		}
		var out []ev
		for _, c := range cur {
			f := map[string]Val{}
			for i := 0; i < u.NumFields(); i++ {
				f[u.Field(i).Name()] = in.zero(c.st, u.Field(i).Type())
			}
			for i, n := range names {
				f[n] = in.copyVal(c.st, c.vals[i])
			}
			out = append(out, ev{c.st, c.st.NewObj(typeName(t), f)})
		}
		return out
	case *types.Slice, *types.Array:
		var exprs []ast.Expr
		for _, el := range x.Elts {
			if kv, ok := el.(*ast.KeyValueExpr); ok {
				exprs = append(exprs, kv.Value)
			} else {
				exprs = append(exprs, el)
			}
		}
		var out []ev
		for _, r := range in.evalList(exprs, st) {
			out = append(out, ev{r.st, List{r.vals}})
		}
		return out
	case *types.Map:
		return one(st, Sym{Name: "map@" + fmt.Sprint(x.Pos())})
	}
	in.undecided(x.Pos(), "composite literal of %s", t)
	return nil
}

// copyVal copies struct values (value semantics) — pointers keep identity.
func (in *Interp) copyVal(st *State, v Val) Val { return v }

// ---------------------------------------------------------------------------
// conditions

func (in *Interp) cond(e ast.Expr, st *State) []condRes {
	e = core.Unparen(e)
	switch x := e.(type) {
	case *ast.UnaryExpr:
		if x.Op == token.NOT {
			var out []condRes
			for _, cb := range in.cond(x.X, st) {
				out = append(out, condRes{cb.st, !cb.b})
			}
			return out
		}
	case *ast.BinaryExpr:
		switch x.Op {
		case token.LAND:
			var out []condRes
			for _, l := range in.cond(x.X, st) {
				if !l.b {
					out = append(out, l)
					continue
				}
				out = append(out, in.cond(x.Y, l.st)...)
			}
			return out
		case token.LOR:
			var out []condRes
			for _, l := range in.cond(x.X, st) {
				if l.b {
					out = append(out, l)
					continue
				}
				out = append(out, in.cond(x.Y, l.st)...)
			}
			return out
		case token.EQL, token.NEQ, token.LSS, token.LEQ, token.GTR, token.GEQ:
			var out []condRes
			for _, l := range in.eval(x.X, st) {
				for _, r := range in.eval(x.Y, l.st) {
					out = append(out, in.compare(r.st, x.Op, l.v, r.v, x.Pos())...)
				}
			}
			return out
		}
	}
	var out []condRes
	for _, r := range in.eval(e, st) {
		switch {
		case IsTrue(r.v):
			out = append(out, condRes{r.st, true})
		case IsFalse(r.v):
			out = append(out, condRes{r.st, false})
		default:
			out = append(out, in.decide(r.st, r.v.Canon())...)
		}
	}
	return out
}

// compare reduces every comparison to the atoms (a == b) and (a < b).
func (in *Interp) compare(st *State, op token.Token, l, r Val, pos token.Pos) []condRes {
	neg := func(rs []condRes) []condRes {
		for i := range rs {
			rs[i].b = !rs[i].b
		}
		return rs
	}
	switch op {
	case token.EQL:
		return in.decideEq(st, l, r, pos)
	case token.NEQ:
		return neg(in.decideEq(st, l, r, pos))
	case token.LSS:
		return in.decideLt(st, l, r)
	case token.GTR:
		return in.decideLt(st, r, l)
	case token.GEQ:
		// a >= b  ⇔  !(a < b) for totally ordered operands; for floats with NaN this
		// equivalence fails, so float comparisons are kept as their own atoms
		return in.decideLe(st, r, l)
	case token.LEQ:
		return in.decideLe(st, l, r)
	}
	in.undecided(pos, "comparison %s", op)
	return nil
}

func (in *Interp) decideEq(st *State, l, r Val, pos token.Pos) []condRes {
	lc, lok := l.(Const)
	rc, rok := r.(Const)
	if lok && rok {
		return []condRes{{st, constant.Compare(lc.V, token.EQL, rc.V)}}
	}
	_, ln := l.(Nil)
	_, rn := r.(Nil)
	if ln && rn {
		return []condRes{{st, true}}
	}
	isAlloc := func(v Val) bool {
		switch v.(type) {
		case Ref, Closure, ptrTo, List:
			return true
		}
		return false
	}
	if (ln && isAlloc(r)) || (rn && isAlloc(l)) {
		return []condRes{{st, false}}
	}
	if (ln && rok) || (rn && lok) {
		return []condRes{{st, false}}
	}
	if ls, ok := l.(Sym); ok && ls.NotNil && rn {
		return []condRes{{st, false}}
	}
	if rs, ok := r.(Sym); ok && rs.NotNil && ln {
		return []condRes{{st, false}}
	}
	// an index (range key) is never equal to a negative constant
	if negConst(l) && nonNegSym(r) || negConst(r) && nonNegSym(l) {
		return []condRes{{st, false}}
	}
	a, b := l.Canon(), r.Canon()
	if a == b {
		// x == x holds except for NaN: a rule that models NaN answers this atom itself
		if in.Hooks.Cond != nil {
			if v, ok := in.Hooks.Cond(st, "("+a+" == "+b+")"); ok {
				return []condRes{{st, v}}
			}
		}
		return []condRes{{st, true}}
	}
	if a > b {
		a, b = b, a
	}
	return in.decide(st, "("+a+" == "+b+")")
}

func (in *Interp) decideLt(st *State, l, r Val) []condRes {
	lc, lok := l.(Const)
	rc, rok := r.(Const)
	if lok && rok {
		return []condRes{{st, constant.Compare(lc.V, token.LSS, rc.V)}}
	}
	if l.Canon() == r.Canon() {
		return []condRes{{st, false}}
	}
	// index < c for c ≤ 0 is false; c < index for negative c is true
	if nonNegSym(l) && rok && constant.Sign(rc.V) <= 0 {
		return []condRes{{st, false}}
	}
	if nonNegSym(r) && negConst(l) {
		return []condRes{{st, true}}
	}
	a, b := l.Canon(), r.Canon()
	// entailed by an order assumption already on this path: !(b <= a), or not even a <= b, or b < a
	return in.decideEntailed(st, "("+a+" < "+b+")", func() (bool, bool) {
		if v, ok := st.Assumed["("+b+" <= "+a+")"]; ok {
			return !v, true
		}
		if v, ok := st.Assumed["("+a+" <= "+b+")"]; ok && !v {
			return false, true
		}
		if v, ok := st.Assumed["("+b+" < "+a+")"]; ok && v {
			return false, true
		}
		return false, false
	})
}

func (in *Interp) decideLe(st *State, l, r Val) []condRes {
	lc, lok := l.(Const)
	rc, rok := r.(Const)
	if lok && rok {
		return []condRes{{st, constant.Compare(lc.V, token.LEQ, rc.V)}}
	}
	if l.Canon() == r.Canon() {
		// x <= x is true except for NaN; rules for floats bind their own atoms
		return in.decide(st, "("+l.Canon()+" <= "+r.Canon()+")")
	}
	a, b := l.Canon(), r.Canon()
	// c <= index for c ≤ 0 is true; index <= c for negative c is false
	if nonNegSym(r) && lok && constant.Sign(lc.V) <= 0 {
		return []condRes{{st, true}}
	}
	if nonNegSym(l) && negConst(r) {
		return []condRes{{st, false}}
	}
	// a <= b is !(b < a); a < b entails it
	return in.decideEntailed(st, "("+a+" <= "+b+")", func() (bool, bool) {
		if v, ok := st.Assumed["("+b+" < "+a+")"]; ok {
			return !v, true
		}
		if v, ok := st.Assumed["("+a+" < "+b+")"]; ok && v {
			return true, true
		}
		return false, false
	})
}

// decide looks an atom up in the path's assumptions, asks the rule, or forks.
func (in *Interp) decide(st *State, atom string) []condRes {
	return in.decideEntailed(st, atom, nil)
}

// decideEntailed is decide with a last resort before forking: an answer entailed by other assumptions of the
// path (the rule's Cond hook is asked first, so a rule that models unordered values keeps its say).
func (in *Interp) decideEntailed(st *State, atom string, entailed func() (bool, bool)) []condRes {
	if b, ok := st.Assumed[atom]; ok {
		return []condRes{{st, b}}
	}
	if in.Hooks.Cond != nil {
		if b, ok := in.Hooks.Cond(st, atom); ok {
			return []condRes{{st, b}}
		}
	}
	if entailed != nil {
		if b, ok := entailed(); ok {
			return []condRes{{st, b}}
		}
	}
	in.fork()
	if debugForks {
		fmt.Fprintln(os.Stderr, "FORK", atom)
	}
	t := st.clone()
	f := st
	t.Assumed[atom] = true
	f.Assumed[atom] = false
	return []condRes{{t, true}, {f, false}}
}

func (in *Interp) arith(st *State, op token.Token, l, r Val, pos token.Pos) Val {
	lc, lok := l.(Const)
	rc, rok := r.(Const)
	if lok && rok {
		defer func() {
			if rec := recover(); rec != nil {
				panic(Undecided{Pos: pos, What: fmt.Sprintf("constant arithmetic %v", rec)})
			}
		}()
		if op == token.QUO && lc.V.Kind() == constant.Int && rc.V.Kind() == constant.Int {
			if constant.Sign(rc.V) == 0 {
				return Sym{Name: "div0"}
			}
			return Const{constant.BinaryOp(lc.V, token.QUO_ASSIGN, rc.V)}
		}
		if op == token.SHL || op == token.SHR {
			s, _ := constant.Uint64Val(rc.V)
			return Const{constant.Shift(lc.V, op, uint(s))}
		}
		return Const{constant.BinaryOp(lc.V, op, rc.V)}
	}
	// the empty string is the neutral element of concatenation
	if op == token.ADD {
		if lok && lc.V.Kind() == constant.String && constant.StringVal(lc.V) == "" {
			return r
		}
		if rok && rc.V.Kind() == constant.String && constant.StringVal(rc.V) == "" {
			return l
		}
	}
	return Sym{Name: "(" + l.Canon() + " " + op.String() + " " + r.Canon() + ")"}
}

// ---------------------------------------------------------------------------
// assignment

func (in *Interp) assign(lhs, rhs []ast.Expr, tok token.Token, st *State, pos token.Pos) []*State {
	var out []*State
	if tok != token.ASSIGN && tok != token.DEFINE {
		// op-assign
		op := map[token.Token]token.Token{token.ADD_ASSIGN: token.ADD, token.SUB_ASSIGN: token.SUB, token.MUL_ASSIGN: token.MUL, token.QUO_ASSIGN: token.QUO,
			token.REM_ASSIGN: token.REM, token.AND_ASSIGN: token.AND, token.OR_ASSIGN: token.OR, token.XOR_ASSIGN: token.XOR, token.SHL_ASSIGN: token.SHL, token.SHR_ASSIGN: token.SHR}[tok]
		for _, l := range in.eval(lhs[0], st) {
			for _, r := range in.eval(rhs[0], l.st) {
				in.store(lhs[0], in.arith(r.st, op, l.v, r.v, pos), r.st)
				out = append(out, r.st)
			}
		}
		return out
	}
	if len(rhs) == 1 && len(lhs) > 1 {
		// tuple assignment from a call, map index, type assertion or receive
		switch rx := core.Unparen(rhs[0]).(type) {
		case *ast.TypeAssertExpr:
			for _, b := range in.eval(rx.X, st) {
				typ := core.ExprStr(rx.Type)
				if in.Hooks.Assert != nil {
					if v, ok, known := in.Hooks.Assert(b.st, b.v, typ); known {
						in.store(lhs[0], v, b.st)
						in.store(lhs[1], Bool(ok), b.st)
						out = append(out, b.st)
						continue
					}
				}
				for _, cb := range in.decide(b.st, "("+b.v.Canon()+" is "+typ+")") {
					in.store(lhs[0], b.v, cb.st)
					in.store(lhs[1], Bool(cb.b), cb.st)
					out = append(out, cb.st)
				}
			}
			return out
		case *ast.IndexExpr, *ast.UnaryExpr:
			for _, b := range in.eval(rhs[0], st) {
				in.store(lhs[0], b.v, b.st)
				in.store(lhs[1], Sym{Name: "ok:" + b.v.Canon()}, b.st)
				out = append(out, b.st)
			}
			return out
		}
		for _, r := range in.eval(rhs[0], st) {
			t, ok := r.v.(Tuple)
			if !ok {
				if p, isP := r.v.(panicVal); isP {
					_ = p
					in.undecided(pos, "panic inside tuple assignment")
				}
				in.undecided(pos, "tuple assignment from non-tuple %s", r.v.Canon())
			}
			for i, l := range lhs {
				if i < len(t.Elems) {
					in.store(l, t.Elems[i], r.st)
				}
			}
			out = append(out, r.st)
		}
		return out
	}
	for _, r := range in.evalList(rhs, st) {
		for i, l := range lhs {
			in.store(l, r.vals[i], r.st)
		}
		out = append(out, r.st)
	}
	return out
}

func (in *Interp) store(lhs ast.Expr, v Val, st *State) {
	info := in.info()
	switch x := core.Unparen(lhs).(type) {
	case *ast.Ident:
		if x.Name == "_" {
			return
		}
		o := info.Defs[x]
		if o == nil {
			o = info.Uses[x]
		}
		if o == nil {
			return
		}
		// value semantics for struct-typed variables: copy the object
		if r, ok := v.(Ref); ok {
			if _, isStruct := o.Type().Underlying().(*types.Struct); isStruct {
				if src := st.heap[r.ID]; src != nil {
					f := make(map[string]Val, len(src.Fields))
					for k, fv := range src.Fields {
						f[k] = fv
					}
					v = st.NewObj(src.Type, f)
				}
			}
		}
		st.env[o] = v
		if in.Hooks.Store != nil {
			in.Hooks.Store(st, o, v)
		}
	case *ast.SelectorExpr:
		for _, b := range in.eval(x.X, st) {
			base := b.v
			if p, ok := base.(ptrTo); ok {
				base = p.load(st)
			}
			if r, ok := base.(Ref); ok {
				if ob := st.heap[r.ID]; ob != nil {
					if in.Hooks.FieldStore != nil {
						in.Hooks.FieldStore(st, base, x.Sel.Name, ob.Fields[x.Sel.Name], v)
					}
					ob.Fields[x.Sel.Name] = v
					return
				}
			}
			if in.Hooks.FieldStore != nil {
				in.Hooks.FieldStore(st, base, x.Sel.Name, st.symFields[base.Canon()+"."+x.Sel.Name], v)
			}
			st.Emit("store "+base.Canon()+"."+x.Sel.Name, lhs.Pos(), v)
			if st.symFields == nil {
				st.symFields = map[string]Val{}
			}
			st.symFields[base.Canon()+"."+x.Sel.Name] = v
			return
		}
	case *ast.IndexExpr:
		for _, b := range in.eval(x.X, st) {
			for _, i := range in.eval(x.Index, b.st) {
				if l, ok := b.v.(List); ok {
					if k, ok := AsInt(i.v); ok && int(k) < len(l.Elems) {
						l.Elems[k] = v
						return
					}
				}
				st.Emit("store "+b.v.Canon()+"["+i.v.Canon()+"]", lhs.Pos(), v)
				return
			}
		}
	case *ast.StarExpr:
		for _, b := range in.eval(x.X, st) {
			if p, ok := b.v.(ptrTo); ok {
				if p.obj != nil {
					st.env[p.obj] = v
				} else if ob := st.heap[p.ref.ID]; ob != nil {
					ob.Fields[p.field] = v
				}
				return
			}
			st.Emit("store *"+b.v.Canon(), lhs.Pos(), v)
			return
		}
	default:
		in.undecided(lhs.Pos(), "assignment to %T", lhs)
	}
}

// ---------------------------------------------------------------------------
// calls

func (in *Interp) call(x *ast.CallExpr, st *State) []ev {
	info := in.info()
	// conversion
	if tv, ok := info.Types[x.Fun]; ok && tv.IsType() && len(x.Args) == 1 {
		var out []ev
		for _, a := range in.eval(x.Args[0], st) {
			out = append(out, ev{a.st, a.v}) // conversions are transparent
		}
		return out
	}
	callee := "?"
	var calleeObj types.Object
	if in.Prog != nil {
		callee = in.Prog.CalleeName(info, x)
	}
	calleeObj = core.Callee(info, x)
	// a function-valued variable that is just another name for a function value of the analysed function (a helper's
	// parameter handed `produce`, a factory's parameter): the call is known by the name of what it holds
	if v, isVar := calleeObj.(*types.Var); isVar && strings.HasPrefix(callee, "value:") {
		var fexpr ast.Expr
		if id := identOf(x.Fun); id != nil {
			fexpr = id
		} else if sel, ok := core.Unparen(x.Fun).(*ast.SelectorExpr); ok && v.IsField() {
			fexpr = sel // a function kept in a field of a state object
		}
		if fexpr != nil {
			if res := in.eval(fexpr, st); len(res) == 1 && res[0].st == st {
				if sym, ok := res[0].v.(Sym); ok && sym.Name != v.Name() && plainIdentRE.MatchString(sym.Name) {
					callee = "value:" + sym.Name
				} else if ok {
					// … or it holds a named function: the call is a call of that function
					if fo := in.funcSyms[sym.Name]; fo != nil {
						calleeObj = fo
						if in.Prog != nil {
							callee = in.Prog.QNameAny(fo)
						}
					}
				}
			}
		}
	}
	// receiver
	var recvs []ev
	if sel, ok := core.Unparen(x.Fun).(*ast.SelectorExpr); ok {
		if _, isPkg := info.Uses[identOf(sel.X)].(*types.PkgName); !isPkg {
			recvs = in.eval(sel.X, st)
		}
	}
	if recvs == nil {
		recvs = []ev{{st, nil}}
	}
	var out []ev
	for _, rc := range recvs {
		for _, ar := range in.evalList(x.Args, rc.st) {
			out = append(out, in.apply(x, callee, calleeObj, rc.v, ar.vals, ar.st)...)
		}
	}
	return out
}

func identOf(e ast.Expr) *ast.Ident {
	id, _ := core.Unparen(e).(*ast.Ident)
	return id
}

func (in *Interp) apply(x *ast.CallExpr, callee string, obj types.Object, recv Val, args []Val, st *State) []ev {
	info := in.info()
	if in.Hooks.Call != nil {
		if v, ok := in.Hooks.Call(st, x, callee, recv, args); ok {
			return one(st, v)
		}
	}
	// an iterator-style callee (Ascend, Scan, Visit, …): the rule names the callback argument and the item(s) of one
	// abstract iteration; the callback runs once, in this state, and what it returned is recorded as an event
	if in.Hooks.Visit != nil {
		if idx, items, ok := in.Hooks.Visit(st, callee, recv, args); ok && idx >= 0 && idx < len(args) {
			// a method value or a named function as the callback: its declaration is run
			if _, isClosure := args[idx].(Closure); !isClosure && in.Hooks.Inline != nil && idx < len(x.Args) {
				var fobj *types.Func
				var recvExpr ast.Expr
				switch a := core.Unparen(x.Args[idx]).(type) {
				case *ast.SelectorExpr:
					fobj, _ = info.Uses[a.Sel].(*types.Func)
					if sel := info.Selections[a]; sel != nil && sel.Kind() == types.MethodVal {
						recvExpr = a.X
					}
				case *ast.Ident:
					fobj, _ = info.Uses[a].(*types.Func)
				}
				if fobj != nil {
					if decl, dinfo := in.Hooks.Inline(fobj); decl != nil {
						var recvVal Val
						if recvExpr != nil {
							if rv := in.eval(recvExpr, st); len(rv) == 1 {
								recvVal = rv[0].v
							}
						}
						var out []ev
						for _, e := range in.inline(decl.Type, decl.Recv, decl.Body, recvVal, items, st, x, dinfo) {
							if pv, isPanic := e.v.(panicVal); isPanic {
								out = append(out, ev{e.st, pv})
								continue
							}
							e.st.Emit("visited "+callee, x.Pos(), e.v)
							out = append(out, ev{e.st, Sym{Name: "void"}})
						}
						return out
					}
				}
			}
			if cl, ok := args[idx].(Closure); ok {
				if lit, ok := cl.Lit.(*ast.FuncLit); ok {
					var out []ev
					for _, e := range in.inline(lit.Type, nil, lit.Body, nil, items, st, x, info) {
						if pv, isPanic := e.v.(panicVal); isPanic {
							out = append(out, ev{e.st, pv})
							continue
						}
						e.st.Emit("visited "+callee, x.Pos(), e.v)
						out = append(out, ev{e.st, Sym{Name: "void"}})
					}
					return out
				}
			}
		}
	}
	if b, ok := obj.(*types.Builtin); ok {
		switch b.Name() {
		case "panic":
			return one(st, panicVal{args[0]})
		case "len", "cap":
			if l, ok := args[0].(List); ok {
				return one(st, Int(int64(len(l.Elems))))
			}
			if c, ok := args[0].(Const); ok && c.V.Kind() == constant.String {
				return one(st, Int(int64(len(constant.StringVal(c.V)))))
			}
			if _, ok := args[0].(Nil); ok {
				return one(st, Int(0))
			}
			if ap, ok := args[0].(Appended); ok && ap.Base == nil {
				hasSpread := false
				for _, e := range ap.Elems {
					if _, isS := e.(Spread); isS {
						hasSpread = true
					}
				}
				if !hasSpread {
					return one(st, Int(int64(len(ap.Elems))))
				}
			}
			return one(st, Sym{Name: b.Name() + "(" + args[0].Canon() + ")"})
		case "append":
			var add []Val
			for i, a := range args[1:] {
				if x.Ellipsis.IsValid() && i == len(args)-2 {
					switch sv := a.(type) {
					case List:
						add = append(add, sv.Elems...)
					case Nil:
					case Appended:
						if sv.Base == nil {
							add = append(add, sv.Elems...)
						} else {
							add = append(add, Spread{a})
						}
					default:
						add = append(add, Spread{a})
					}
					continue
				}
				add = append(add, a)
			}
			switch base := args[0].(type) {
			case List:
				return one(st, List{append(append([]Val(nil), base.Elems...), add...)})
			case Nil:
				allKnown := true
				for _, a := range add {
					if _, isSpread := a.(Spread); isSpread {
						allKnown = false
					}
				}
				if allKnown {
					return one(st, List{add})
				}
				return one(st, Appended{Base: nil, Elems: add})
			case Appended:
				st.Emit("append "+showBase(base.Base), x.Pos(), add...)
				elems := append([]Val(nil), base.Elems...)
				for _, a := range add {
					dup := false
					for _, e := range elems {
						if e.Canon() == a.Canon() {
							dup = true
						}
					}
					if !dup {
						elems = append(elems, a)
					}
				}
				return one(st, Appended{Base: base.Base, Elems: elems})
			}
			st.Emit("append "+args[0].Canon(), x.Pos(), add...)
			return one(st, Appended{Base: args[0], Elems: add})
		case "make":
			st.Emit("make", x.Pos(), args...)
			return one(st, Sym{Name: fmt.Sprintf("make@%d", x.Pos()), NotNil: true})
		case "new":
			return one(st, Sym{Name: fmt.Sprintf("new@%d", x.Pos()), NotNil: true})
		case "copy", "delete", "close", "print", "println":
			// copy(dst[:len(src)], src) copies what copy(dst, src) copies
			if b.Name() == "copy" && len(args) == 2 && args[0] != nil && args[1] != nil {
				if d, ok := args[0].(Sym); ok {
					if suffix := "[:len(" + args[1].Canon() + ")]"; strings.HasSuffix(d.Name, suffix) {
						args = []Val{Sym{Name: strings.TrimSuffix(d.Name, suffix), NotNil: d.NotNil}, args[1]}
					}
				}
			}
			st.Emit(b.Name(), x.Pos(), args...)
			return one(st, Sym{Name: b.Name()})
		case "min", "max":
			return one(st, Sym{Name: b.Name() + "(" + canonList(args) + ")"})
		}
	}
	// local closure
	var fv Val
	if obj != nil {
		if v, ok := obj.(*types.Var); ok {
			fv = st.env[v]
		}
	}
	if fv == nil {
		if _, isLit := core.Unparen(x.Fun).(*ast.FuncLit); isLit {
			fv = Closure{Lit: core.Unparen(x.Fun)}
		}
	}
	if fv == nil && obj != nil && in.Hooks.FreeClosure != nil {
		if v, ok := obj.(*types.Var); ok {
			if lit := in.Hooks.FreeClosure(v); lit != nil {
				fv = Closure{Lit: lit}
			}
		}
	}
	if cl, ok := fv.(Closure); ok {
		lit := cl.Lit.(*ast.FuncLit)
		return in.inline(lit.Type, nil, lit.Body, nil, args, st, x, info)
	}
	if fn, ok := obj.(*types.Func); ok && in.Hooks.Inline != nil {
		if decl, dinfo := in.Hooks.Inline(fn); decl != nil {
			return in.inline(decl.Type, decl.Recv, decl.Body, recv, args, st, x, dinfo)
		}
	}
	// unknown call: event + opaque result(s)
	st.Emit(callee, x.Pos(), append([]Val{recv}, args...)...)
	name := callee + "(" + canonList(append([]Val{recv}, args...)) + ")"
	tv := info.Types[x]
	if tup, ok := tv.Type.(*types.Tuple); ok {
		elems := make([]Val, tup.Len())
		for i := 0; i < tup.Len(); i++ {
			if core.IsErrorType(tup.At(i).Type()) && in.ErrorsNil {
				elems[i] = Nil{}
			} else {
				elems[i] = Sym{Name: fmt.Sprintf("%s.%d", name, i)}
			}
		}
		return one(st, Tuple{elems})
	}
	if tv.Type != nil && core.IsErrorType(tv.Type) && in.ErrorsNil {
		return one(st, Nil{})
	}
	return one(st, Sym{Name: name})
}

func showBase(v Val) string {
	if v == nil {
		return "nil"
	}
	return v.Canon()
}

func canonList(vs []Val) string {
	parts := make([]string, 0, len(vs))
	for _, v := range vs {
		if v == nil {
			continue
		}
		parts = append(parts, v.Canon())
	}
	return strings.Join(parts, ",")
}

func (in *Interp) inline(ft *ast.FuncType, recvFL *ast.FieldList, body *ast.BlockStmt, recv Val, args []Val, st *State, at *ast.CallExpr, finfo *types.Info) []ev {
	in.infoStack = append(in.infoStack, finfo)
	defer func() { in.infoStack = in.infoStack[:len(in.infoStack)-1] }()
	if recvFL != nil && len(recvFL.List) == 1 && len(recvFL.List[0].Names) == 1 && recv != nil {
		if o := finfo.Defs[recvFL.List[0].Names[0]]; o != nil {
			st.env[o] = recv
		}
	}
	i := 0
	if ft.Params != nil {
		for _, f := range ft.Params.List {
			for _, n := range f.Names {
				if o := finfo.Defs[n]; o != nil && i < len(args) {
					st.env[o] = args[i]
				}
				i++
			}
			if len(f.Names) == 0 {
				i++
			}
		}
	}
	if ft.Results != nil {
		for _, f := range ft.Results.List {
			for _, n := range f.Names {
				if o := finfo.Defs[n]; o != nil {
					st.env[o] = in.zero(st, o.Type())
				}
			}
		}
	}
	var out []ev
	for _, r := range in.execBlock(body.List, st) {
		switch r.c {
		case cReturn, cNext:
			vals := r.vals
			if len(vals) == 0 && ft.Results != nil {
				for _, f := range ft.Results.List {
					for _, n := range f.Names {
						if o := finfo.Defs[n]; o != nil {
							vals = append(vals, r.st.env[o])
						}
					}
				}
			}
			switch len(vals) {
			case 0:
				out = append(out, ev{r.st, Sym{Name: "void"}})
			case 1:
				out = append(out, ev{r.st, vals[0]})
			default:
				out = append(out, ev{r.st, Tuple{vals}})
			}
		case cPanic:
			out = append(out, ev{r.st, panicVal{r.vals[0]}})
		default:
			// a cut loop inside an inlined function: the path ends here, but its events are kept
			in.cuts = append(in.cuts, r.st)
		}
	}
	return out
}

func nonNegSym(v Val) bool {
	s, ok := v.(Sym)
	return ok && s.NonNeg
}

func negConst(v Val) bool {
	c, ok := v.(Const)
	return ok && c.V.Kind() == constant.Int && constant.Sign(c.V) < 0
}

var plainIdentRE = regexp.MustCompile(`^[A-Za-z_][A-Za-z0-9_]*$`)
