package absint

import (
	"fmt"
	"go/ast"
	"go/constant"
	"go/token"
	"go/types"
	"os"
	"sort"
	"strings"

	"octoverif/core"
)

// Undecided is raised (as a panic, recovered in Run) when the interpreter meets
// a construct it cannot interpret. A rule then reports UNDECIDED, never "holds".
type Undecided struct {
	Pos  token.Pos
	What string
}

func (u Undecided) Error() string { return u.What }

type LoopSpec struct {
	// Cases are the abstract classes of one iteration; the loop body is explored
	// once per class from every reachable (state, ref) pair.
	Cases []string
	// RefStep advances the reference automaton by one iteration of class c.
	RefStep func(ref, c string) string
	// Concrete asks for concrete unrolling over a List of known length.
	Concrete bool
	// MaxIter > 0 bounds the number of iterations explored along one path; after that many the
	// loop is treated as exhausted (used to look at the per-element effect of accumulating loops).
	MaxIter int
	// MinIter > 0: a symbolic range loop is not treated as exhausted before that many iterations.
	MinIter int
	// Exhaust, when set, says whether a symbolic range loop may be exhausted in this state (a rule that knows the
	// ranged sequence to be the longer one forbids it until the other's end was met).
	Exhaust func(st *State) bool
}

type Hooks struct {
	Call   func(st *State, call *ast.CallExpr, callee string, recv Val, args []Val) (Val, bool)
	Cond   func(st *State, atom string) (bool, bool)
	Loop   func(st *State, loop ast.Stmt) *LoopSpec
	Field  func(st *State, base Val, sel string) (Val, bool)
	Ident  func(st *State, obj types.Object) (Val, bool)
	Index  func(st *State, x, i Val) (Val, bool)
	Assert func(st *State, v Val, typ string) (val Val, ok bool, known bool)
	// Binary is told about every arithmetic binary expression (after operand evaluation).
	Binary func(st *State, e *ast.BinaryExpr, l, r Val)
	// Access is told about every index (hi == nil, slice == false) and slice expression.
	Access func(st *State, e ast.Expr, x Val, lo, hi Val, slice bool)
	// Store is told about every assignment to a plain variable.
	Store func(st *State, obj types.Object, v Val)
	// FieldStore is told about every assignment to a field (of a tracked object or of a symbolic base), with the
	// value the field held before.
	FieldStore func(st *State, base Val, field string, old, v Val)
	// Inline resolves a statically-called module function/method to its declaration for inlining.
	Inline func(fn *types.Func) (*ast.FuncDecl, *types.Info)
	// Visit: callee hands its items to a callback argument one by one; returns the index of that argument and the
	// abstract item(s) of one iteration. The callback is run once inline.
	Visit func(st *State, callee string, recv Val, args []Val) (arg int, items []Val, ok bool)
	// FreeVar resolves a variable that is free in the interpreted body to the pure expression it is defined as in
	// the enclosing function (nil: leave it symbolic).
	FreeVar func(v *types.Var) ast.Expr
	// FreeStruct resolves a captured struct variable that is defined once by a composite literal: the literal and
	// the names of the fields that are never written afterwards (only those keep the literal's value; every other
	// field is unknown — it may have been changed by an earlier run of the interpreted body).
	FreeStruct func(v *types.Var) (ast.Expr, map[string]bool)
	// FreeClosure resolves a variable that is free in the interpreted body (declared in the enclosing function)
	// to the function literal it is bound to, when that binding is unique.
	FreeClosure func(v *types.Var) *ast.FuncLit
}

type Interp struct {
	Info      *types.Info
	Prog      *core.Program
	Hooks     Hooks
	ErrorsNil bool // error results of unknown calls are nil (explore success paths only)
	MaxPaths  int
	paths     int
	loopIDs   map[ast.Stmt]int
	infoStack []*types.Info
	cuts      []*State // paths cut inside inlined functions (loop state repeated)
	// captured variables whose definition is being evaluated in their place (FreeVar), against cycles
	resolvingFree map[*types.Var]bool
	// named functions met as values ("func:<full name>" symbols), to resolve calls through variables holding them
	funcSyms map[string]*types.Func
}

type State struct {
	env     map[types.Object]Val
	heap    map[int]*Obj
	nextID  *int
	Assumed map[string]bool
	Events  []Event
	Trace   []string
	Ref     string
	Iter    map[ast.Stmt]string
	IterNow string // case of the innermost active loop iteration
	iterCnt map[ast.Stmt]int
	// fields written on a symbolic base (a captured struct variable, a parameter): read back by later field loads
	symFields map[string]Val
}

func (st *State) clone() *State {
	n := &State{env: make(map[types.Object]Val, len(st.env)), heap: make(map[int]*Obj, len(st.heap)), nextID: st.nextID,
		Assumed: make(map[string]bool, len(st.Assumed)), Ref: st.Ref, Iter: make(map[ast.Stmt]string, len(st.Iter)), IterNow: st.IterNow}
	for k, v := range st.env {
		n.env[k] = v
	}
	for k, o := range st.heap {
		f := make(map[string]Val, len(o.Fields))
		for fk, fv := range o.Fields {
			f[fk] = fv
		}
		n.heap[k] = &Obj{Type: o.Type, Fields: f}
	}
	for k, v := range st.Assumed {
		n.Assumed[k] = v
	}
	for k, v := range st.Iter {
		n.Iter[k] = v
	}
	if st.iterCnt != nil {
		n.iterCnt = make(map[ast.Stmt]int, len(st.iterCnt))
		for k, v := range st.iterCnt {
			n.iterCnt[k] = v
		}
	}
	if st.symFields != nil {
		n.symFields = make(map[string]Val, len(st.symFields))
		for k, v := range st.symFields {
			n.symFields[k] = v
		}
	}
	n.Events = append([]Event(nil), st.Events...)
	n.Trace = append([]string(nil), st.Trace...)
	return n
}

func (st *State) NewObj(typ string, fields map[string]Val) Ref {
	*st.nextID++
	id := *st.nextID
	if fields == nil {
		fields = map[string]Val{}
	}
	st.heap[id] = &Obj{Type: typ, Fields: fields}
	return Ref{id}
}

func (st *State) Obj(r Ref) *Obj { return st.heap[r.ID] }

// Set overrides the value of a variable (used by rules that want a stable name for it).
func (st *State) Set(obj types.Object, v Val) { st.env[obj] = v }

func (st *State) Emit(name string, pos token.Pos, args ...Val) {
	st.Events = append(st.Events, Event{Name: name, Args: args, Pos: pos})
}

// Lookup returns the value of the variable with the given name (any scope).
func (st *State) Lookup(name string) Val {
	var best types.Object
	for o := range st.env {
		if o.Name() == name && (best == nil || o.Pos() > best.Pos()) {
			best = o
		}
	}
	if best == nil {
		return nil
	}
	return st.env[best]
}

func (st *State) key(heapShow func(Val) string) string {
	type kv struct{ k, v string }
	var items []kv
	for o, v := range st.env {
		items = append(items, kv{fmt.Sprintf("%s@%d", o.Name(), o.Pos()), heapShow(v)})
	}
	sort.Slice(items, func(i, j int) bool { return items[i].k < items[j].k })
	var b strings.Builder
	for _, it := range items {
		b.WriteString(it.k + "=" + it.v + ";")
	}
	as := make([]string, 0, len(st.Assumed))
	for k, v := range st.Assumed {
		as = append(as, fmt.Sprintf("%s=%v", k, v))
	}
	sort.Strings(as)
	b.WriteString("|" + strings.Join(as, ",") + "|ref=" + st.Ref)
	if len(st.symFields) > 0 {
		fs := make([]string, 0, len(st.symFields))
		for k, v := range st.symFields {
			fs = append(fs, k+"="+heapShow(v))
		}
		sort.Strings(fs)
		b.WriteString("|fields=" + strings.Join(fs, ","))
	}
	return b.String()
}

type ctrl int

const (
	cNext ctrl = iota
	cReturn
	cBreak
	cContinue
	cPanic
)

type result struct {
	st    *State
	c     ctrl
	label string
	vals  []Val
	pos   token.Pos
}

type ev struct {
	st *State
	v  Val
}

func (in *Interp) undecided(pos token.Pos, format string, a ...any) {
	panic(Undecided{Pos: pos, What: fmt.Sprintf(format, a...)})
}

func (in *Interp) info() *types.Info {
	if n := len(in.infoStack); n > 0 {
		return in.infoStack[n-1]
	}
	return in.Info
}

// Run interprets a function body. bind gives initial values for parameters and
// receiver (nil → a Sym named after the parameter).
func (in *Interp) Run(ftype *ast.FuncType, recv *ast.FieldList, body *ast.BlockStmt, init func(st *State, bindParam func(name string, v Val)), ref0 string) (outs []*Outcome, err error) {
	defer func() {
		if r := recover(); r != nil {
			if u, ok := r.(Undecided); ok {
				err = fmt.Errorf("%s: %s", in.Prog.Pos(u.Pos), u.What)
				return
			}
			panic(r)
		}
	}()
	if in.MaxPaths == 0 {
		in.MaxPaths = 4096
	}
	in.paths = 0
	in.loopIDs = map[ast.Stmt]int{}
	id := 0
	st := &State{env: map[types.Object]Val{}, heap: map[int]*Obj{}, nextID: &id, Assumed: map[string]bool{}, Iter: map[ast.Stmt]string{}, Ref: ref0}
	params := map[string]types.Object{}
	addFields := func(fl *ast.FieldList) {
		if fl == nil {
			return
		}
		for _, f := range fl.List {
			for _, n := range f.Names {
				if o := in.Info.Defs[n]; o != nil {
					params[n.Name] = o
					st.env[o] = Sym{Name: n.Name}
				}
			}
		}
	}
	addFields(recv)
	addFields(ftype.Params)
	if ftype.Results != nil {
		for _, f := range ftype.Results.List {
			for _, n := range f.Names {
				if o := in.Info.Defs[n]; o != nil {
					params[n.Name] = o
					st.env[o] = in.zero(st, o.Type())
				}
			}
		}
	}
	if init != nil {
		init(st, func(name string, v Val) {
			if o, ok := params[name]; ok {
				st.env[o] = v
			}
		})
	}
	in.cuts = nil
	for _, r := range in.execBlock(body.List, st) {
		outs = append(outs, in.outcome(r, ftype))
	}
	for _, cs := range in.cuts {
		outs = append(outs, in.outcome(result{st: cs, c: ctrl(99)}, ftype))
	}
	return outs, nil
}

func (in *Interp) outcome(r result, ftype *ast.FuncType) *Outcome {
	o := &Outcome{Values: r.vals, Events: r.st.Events, Assumed: r.st.Assumed, Trace: r.st.Trace, Ref: r.st.Ref, Heap: r.st.heap, Pos: r.pos, Env: map[string]Val{}}
	names := map[string]types.Object{}
	for ob, v := range r.st.env {
		if prev, ok := names[ob.Name()]; !ok || ob.Pos() > prev.Pos() {
			names[ob.Name()] = ob
			o.Env[ob.Name()] = v
		}
	}
	switch r.c {
	case cReturn:
		o.Kind = "return"
		// bare return with named results
		if len(r.vals) == 0 && ftype != nil && ftype.Results != nil {
			for _, f := range ftype.Results.List {
				for _, n := range f.Names {
					if ob := in.Info.Defs[n]; ob != nil {
						o.Values = append(o.Values, r.st.env[ob])
					}
				}
			}
		}
	case cPanic:
		o.Kind = "panic"
	case cNext:
		o.Kind = "fallthrough"
	case cBreak:
		// only when a loop body is run on its own: a break (or a labelled break) that leaves it
		o.Kind, o.Label = "break", r.label
	case cContinue:
		if r.label == "<cut>" {
			o.Kind = "loop"
		} else {
			o.Kind, o.Label = "continue", r.label
		}
	default:
		o.Kind = "loop"
	}
	return o
}

func (in *Interp) fork() {
	in.paths++
	if in.paths > in.MaxPaths {
		in.undecided(token.NoPos, "more than %d paths", in.MaxPaths)
	}
}

func (in *Interp) zero(st *State, t types.Type) Val {
	switch u := t.Underlying().(type) {
	case *types.Basic:
		switch {
		case u.Info()&types.IsBoolean != 0:
			return Bool(false)
		case u.Info()&types.IsInteger != 0:
			return Int(0)
		case u.Info()&types.IsString != 0:
			return Str("")
		case u.Info()&types.IsFloat != 0:
			return Const{constant.MakeFloat64(0)}
		}
	case *types.Pointer, *types.Slice, *types.Map, *types.Interface, *types.Signature, *types.Chan:
		return Nil{}
	case *types.Struct:
		f := map[string]Val{}
		for i := 0; i < u.NumFields(); i++ {
			f[u.Field(i).Name()] = in.zero(st, u.Field(i).Type())
		}
		return st.NewObj(typeName(t), f)
	}
	return Sym{Name: "zero:" + t.String()}
}

func typeName(t types.Type) string {
	return types.TypeString(t, func(p *types.Package) string { return p.Name() })
}

// ---------------------------------------------------------------------------
// statements

func (in *Interp) execBlock(list []ast.Stmt, st *State) []result {
	cur := []*State{st}
	var out []result
	for _, s := range list {
		var next []*State
		for _, c := range cur {
			for _, r := range in.exec(s, c) {
				if r.c == cNext {
					next = append(next, r.st)
				} else {
					out = append(out, r)
				}
			}
		}
		cur = next
		if len(cur) == 0 {
			break
		}
	}
	for _, c := range cur {
		out = append(out, result{st: c, c: cNext})
	}
	return out
}

func next(st *State) []result { return []result{{st: st, c: cNext}} }

func (in *Interp) exec(s ast.Stmt, st *State) []result {
	switch x := s.(type) {
	case *ast.BlockStmt:
		return in.execBlock(x.List, st)
	case *ast.EmptyStmt:
		return next(st)
	case *ast.ExprStmt:
		var out []result
		for _, e := range in.eval(x.X, st) {
			if p, ok := e.v.(panicVal); ok {
				out = append(out, result{st: e.st, c: cPanic, vals: []Val{p.v}, pos: x.Pos()})
			} else {
				out = append(out, result{st: e.st, c: cNext})
			}
		}
		return out
	case *ast.DeclStmt:
		gd, ok := x.Decl.(*ast.GenDecl)
		if !ok {
			return next(st)
		}
		cur := []*State{st}
		for _, sp := range gd.Specs {
			vs, ok := sp.(*ast.ValueSpec)
			if !ok {
				continue
			}
			var nxt []*State
			for _, c := range cur {
				if len(vs.Values) == 0 {
					for _, n := range vs.Names {
						if o := in.info().Defs[n]; o != nil {
							c.env[o] = in.zero(c, o.Type())
						}
					}
					nxt = append(nxt, c)
					continue
				}
				for _, r := range in.assign(identExprs(vs.Names), vs.Values, token.DEFINE, c, x.Pos()) {
					nxt = append(nxt, r)
				}
			}
			cur = nxt
		}
		var out []result
		for _, c := range cur {
			out = append(out, result{st: c, c: cNext})
		}
		return out
	case *ast.AssignStmt:
		var out []result
		for _, r := range in.assign(x.Lhs, x.Rhs, x.Tok, st, x.Pos()) {
			out = append(out, result{st: r, c: cNext})
		}
		return out
	case *ast.IncDecStmt:
		op := token.ADD
		if x.Tok == token.DEC {
			op = token.SUB
		}
		var out []result
		for _, e := range in.eval(x.X, st) {
			nv := in.arith(e.st, op, e.v, Int(1), x.Pos())
			in.store(x.X, nv, e.st)
			out = append(out, result{st: e.st, c: cNext})
		}
		return out
	case *ast.ReturnStmt:
		var out []result
		for _, r := range in.evalList(x.Results, st) {
			vals := r.vals
			if len(vals) == 1 {
				if t, ok := vals[0].(Tuple); ok {
					vals = t.Elems
				}
			}
			out = append(out, result{st: r.st, c: cReturn, vals: vals, pos: x.Pos()})
		}
		return out
	case *ast.BranchStmt:
		lbl := ""
		if x.Label != nil {
			lbl = x.Label.Name
		}
		switch x.Tok {
		case token.BREAK:
			return []result{{st: st, c: cBreak, label: lbl, pos: x.Pos()}}
		case token.CONTINUE:
			return []result{{st: st, c: cContinue, label: lbl, pos: x.Pos()}}
		}
		in.undecided(x.Pos(), "unsupported branch statement %s", x.Tok)
	case *ast.IfStmt:
		states := []*State{st}
		if x.Init != nil {
			states = nil
			for _, r := range in.exec(x.Init, st) {
				if r.c != cNext {
					in.undecided(x.Pos(), "control flow in if-init")
				}
				states = append(states, r.st)
			}
		}
		var out []result
		for _, s0 := range states {
			for _, cb := range in.cond(x.Cond, s0) {
				if cb.b {
					out = append(out, in.execBlock(x.Body.List, cb.st)...)
				} else if x.Else != nil {
					out = append(out, in.exec(x.Else, cb.st)...)
				} else {
					out = append(out, result{st: cb.st, c: cNext})
				}
			}
		}
		return out
	case *ast.SwitchStmt:
		return in.execSwitch(x, st, "")
	case *ast.LabeledStmt:
		switch inner := x.Stmt.(type) {
		case *ast.ForStmt, *ast.RangeStmt:
			return in.execLoop(inner, st, x.Label.Name)
		case *ast.SwitchStmt:
			return in.execSwitch(inner, st, x.Label.Name)
		case *ast.SelectStmt:
			return in.execSelect(inner, st, x.Label.Name)
		}
		return in.exec(x.Stmt, st)
	case *ast.ForStmt, *ast.RangeStmt:
		return in.execLoop(s, st, "")
	case *ast.DeferStmt:
		st.Emit("defer "+core.ExprStr(x.Call.Fun), x.Pos())
		return next(st)
	case *ast.GoStmt:
		st.Emit("go "+core.ExprStr(x.Call.Fun), x.Pos())
		return next(st)
	case *ast.SendStmt:
		var out []result
		for _, e := range in.eval(x.Value, st) {
			e.st.Emit("send "+core.ExprStr(x.Chan), x.Pos(), e.v)
			out = append(out, result{st: e.st, c: cNext})
		}
		return out
	case *ast.TypeSwitchStmt:
		in.undecided(x.Pos(), "type switch")
	case *ast.SelectStmt:
		return in.execSelect(x, st, "")
	}
	in.undecided(s.Pos(), "unsupported statement %T", s)
	return nil
}

func identExprs(ids []*ast.Ident) []ast.Expr {
	out := make([]ast.Expr, len(ids))
	for i, id := range ids {
		out[i] = id
	}
	return out
}

// execSelect: any arm may be the one taken — the state forks into one path per communication clause (and the
// default clause); the taken arm is recorded as an event "select <comm>" before its communication and body run.
func (in *Interp) execSelect(x *ast.SelectStmt, st *State, label string) []result {
	var out []result
	clauses := x.Body.List
	for i, cc := range clauses {
		clause := cc.(*ast.CommClause)
		s := st
		if i < len(clauses)-1 {
			s = st.clone()
			in.fork()
		}
		name := "default"
		if clause.Comm != nil {
			name = core.FullStr(clause.Comm)
		}
		s.Emit("select "+name, clause.Pos())
		starts := []result{{st: s, c: cNext}}
		if clause.Comm != nil {
			starts = in.exec(clause.Comm, s)
		}
		for _, r0 := range starts {
			if r0.c != cNext {
				out = append(out, r0)
				continue
			}
			for _, r := range in.execBlock(clause.Body, r0.st) {
				if r.c == cBreak && (r.label == "" || r.label == label) {
					r.c = cNext
					r.label = ""
				}
				out = append(out, r)
			}
		}
	}
	return out
}

func (in *Interp) execSwitch(x *ast.SwitchStmt, st *State, label string) []result {
	states := []*State{st}
	if x.Init != nil {
		states = nil
		for _, r := range in.exec(x.Init, st) {
			states = append(states, r.st)
		}
	}
	var out []result
	finish := func(rs []result) {
		for _, r := range rs {
			if r.c == cBreak && (r.label == "" || r.label == label) {
				r.c = cNext
				r.label = ""
			}
			out = append(out, r)
		}
	}
	for _, s0 := range states {
		type pend struct {
			st  *State
			tag Val
		}
		var pending []pend
		if x.Tag != nil {
			for _, e := range in.eval(x.Tag, s0) {
				pending = append(pending, pend{e.st, e.v})
			}
		} else {
			pending = []pend{{s0, nil}}
		}
		var deflt *ast.CaseClause
		for _, cc := range x.Body.List {
			clause := cc.(*ast.CaseClause)
			if clause.List == nil {
				deflt = clause
				continue
			}
			for _, b := range clause.Body {
				if br, ok := b.(*ast.BranchStmt); ok && br.Tok == token.FALLTHROUGH {
					in.undecided(br.Pos(), "fallthrough")
				}
			}
			var still []pend
			for _, p := range pending {
				// the clause matches if any expression matches
				cur := []*State{p.st}
				for _, ce := range clause.List {
					var nomatch []*State
					for _, c := range cur {
						var cbs []condRes
						if p.tag != nil {
							for _, e := range in.eval(ce, c) {
								cbs = append(cbs, in.decideEq(e.st, p.tag, e.v, ce.Pos())...)
							}
						} else {
							cbs = in.cond(ce, c)
						}
						for _, cb := range cbs {
							if cb.b {
								finish(in.execBlock(clause.Body, cb.st))
							} else {
								nomatch = append(nomatch, cb.st)
							}
						}
					}
					cur = nomatch
				}
				for _, c := range cur {
					still = append(still, pend{c, p.tag})
				}
			}
			pending = still
		}
		for _, p := range pending {
			if deflt != nil {
				finish(in.execBlock(deflt.Body, p.st))
			} else {
				out = append(out, result{st: p.st, c: cNext})
			}
		}
	}
	return out
}

// ---------------------------------------------------------------------------
// loops

func (in *Interp) loopTag(loop ast.Stmt) string {
	id, ok := in.loopIDs[loop]
	if !ok {
		id = len(in.loopIDs) + 1
		in.loopIDs[loop] = id
	}
	return fmt.Sprintf("@L%d", id)
}

func (in *Interp) execLoop(loop ast.Stmt, st *State, label string) []result {
	tag := in.loopTag(loop)
	var spec *LoopSpec
	if in.Hooks.Loop != nil {
		spec = in.Hooks.Loop(st, loop)
	}
	cases := []string{""}
	if spec != nil && len(spec.Cases) > 0 {
		cases = spec.Cases
	}
	var out []result
	var body *ast.BlockStmt
	var fs *ast.ForStmt
	var rs *ast.RangeStmt
	switch x := loop.(type) {
	case *ast.ForStmt:
		fs, body = x, x.Body
	case *ast.RangeStmt:
		rs, body = x, x.Body
	}
	starts := []*State{st}
	var havoc []types.Object
	var rangeX Val
	if fs != nil && fs.Init != nil {
		starts = nil
		for _, r := range in.exec(fs.Init, st) {
			starts = append(starts, r.st)
		}
	}
	// variables the post statement advances from their own value (i++, i += 2, i = i*2) are abstracted at the loop
	// head; one that is re-fetched (x = next()) keeps the value the call gave it
	selfUpdating := func(post ast.Stmt) bool {
		switch x := post.(type) {
		case *ast.IncDecStmt:
			return true
		case *ast.AssignStmt:
			if x.Tok != token.ASSIGN {
				return true
			}
			self := false
			for _, l := range x.Lhs {
				lid, ok := l.(*ast.Ident)
				if !ok {
					return true
				}
				for _, r := range x.Rhs {
					ast.Inspect(r, func(n ast.Node) bool {
						if id, ok := n.(*ast.Ident); ok && in.info().Uses[id] != nil && in.info().Uses[id] == in.info().Uses[lid] {
							self = true
						}
						return true
					})
				}
			}
			return self
		}
		return true
	}
	if fs != nil && fs.Post != nil && selfUpdating(fs.Post) {
		ast.Inspect(fs.Post, func(n ast.Node) bool {
			if id, ok := n.(*ast.Ident); ok {
				if o := in.info().Uses[id]; o != nil {
					if _, isVar := o.(*types.Var); isVar {
						havoc = append(havoc, o)
					}
				}
			}
			return true
		})
	}
	if rs != nil {
		starts = nil
		for _, e := range in.eval(rs.X, st) {
			rangeX = e.v
			starts = append(starts, e.st)
		}
		// concrete unrolling over a known list when no cases were requested
		if l, ok := rangeX.(List); ok && (spec == nil || spec.Concrete) {
			return in.rangeConcrete(rs, l, starts, label)
		}
	}
	hasNested := false
	ast.Inspect(body, func(n ast.Node) bool {
		switch n.(type) {
		case *ast.ForStmt, *ast.RangeStmt:
			hasNested = true
		case *ast.FuncLit:
			return false
		}
		return !hasNested
	})
	for _, s0 := range starts {
		if s0.iterCnt != nil {
			delete(s0.iterCnt, loop)
		}
	}
	seen := map[string]bool{}
	work := starts
	outerIter := st.IterNow
	// leaving the loop normally is visible in the reference state ("exit:<ref>"), so
	// that a rule can tell a return inside an iteration from one after the loop
	exit := func(s *State) {
		s.IterNow = outerIter
		if spec != nil && len(spec.Cases) > 0 {
			s.Ref = "exit:" + s.Ref
		}
		out = append(out, result{st: s, c: cNext})
	}
	for len(work) > 0 {
		s := work[0]
		work = work[1:]
		// loop head: forget iteration-local knowledge
		s.IterNow = ""
		if hasNested {
			// exit/break markers left by loops nested in this one belong to the previous iteration
			for strings.HasPrefix(s.Ref, "exit:") || strings.HasPrefix(s.Ref, "break:") {
				s.Ref = strings.TrimPrefix(strings.TrimPrefix(s.Ref, "exit:"), "break:")
			}
		}
		for _, o := range havoc {
			s.env[o] = Sym{Name: o.Name() + tag}
		}
		for k := range s.Assumed {
			if strings.Contains(k, tag) {
				delete(s.Assumed, k)
			}
		}
		if spec != nil && spec.MaxIter > 0 && s.iterCnt[loop] >= spec.MaxIter {
			exit(s)
			continue
		}
		key := s.key(func(v Val) string { return showVal(v, s.heap, 0) })
		if spec != nil && spec.MaxIter > 0 {
			key += fmt.Sprintf("|iter=%d", s.iterCnt[loop])
		}
		if seen[key] {
			// this (state, ref) pair was explored already; keep the events seen on the way
			out = append(out, result{st: s, c: cContinue, label: "<cut>"})
			continue
		}
		seen[key] = true
		in.fork()
		if debugForks {
			fmt.Fprintln(os.Stderr, "HEAD", tag, len(key), key)
		}
		type entered struct{ st *State }
		var enter []*State
		switch {
		case fs != nil && fs.Cond != nil:
			for _, cb := range in.cond(fs.Cond, s) {
				if cb.b {
					enter = append(enter, cb.st)
				} else {
					exit(cb.st)
				}
			}
		case fs != nil:
			enter = append(enter, s)
		default:
			// range over something symbolic: it may be exhausted or not
			if (spec == nil || s.iterCnt[loop] >= spec.MinIter) && (spec == nil || spec.Exhaust == nil || spec.Exhaust(s)) {
				exit(s.clone())
			}
			enter = append(enter, s)
		}
		for _, e0 := range enter {
			for _, c := range cases {
				e := e0
				if len(cases) > 1 {
					e = e0.clone()
				}
				e.Iter[loop] = c
				e.IterNow = c
				if e.iterCnt == nil {
					e.iterCnt = map[ast.Stmt]int{}
				}
				e.iterCnt[loop]++
				if c != "" {
					e.Trace = append(e.Trace, c)
					if spec.RefStep != nil {
						e.Ref = spec.RefStep(e.Ref, c)
					}
				}
				if rs != nil {
					kname := "i" + tag
					if id, ok := rs.Key.(*ast.Ident); ok && id.Name != "_" {
						kname = id.Name + tag
						// an index is never negative (the key of a map may be)
						nonNeg := false
						if t := in.info().TypeOf(rs.X); t != nil {
							switch u := t.Underlying().(type) {
							case *types.Slice, *types.Array:
								nonNeg = true
							case *types.Pointer:
								_, nonNeg = u.Elem().Underlying().(*types.Array)
							case *types.Basic:
								nonNeg = u.Info()&(types.IsString|types.IsInteger) != 0
							}
						}
						if o := in.info().Defs[id]; o != nil {
							e.env[o] = Sym{Name: kname, NonNeg: nonNeg}
						} else if o := in.info().Uses[id]; o != nil {
							e.env[o] = Sym{Name: kname, NonNeg: nonNeg}
						}
					}
					if id, ok := rs.Value.(*ast.Ident); ok && id.Name != "_" {
						var ev Val = Sym{Name: rangeX.Canon() + "[" + kname + "]"}
						if in.Hooks.Index != nil {
							if v, ok := in.Hooks.Index(e, rangeX, Sym{Name: kname}); ok {
								ev = v
							}
						}
						if o := in.info().Defs[id]; o != nil {
							e.env[o] = ev
						} else if o := in.info().Uses[id]; o != nil {
							e.env[o] = ev
						}
					}
				}
				for _, r := range in.execBlock(body.List, e) {
					switch {
					case r.c == cNext || (r.c == cContinue && (r.label == "" || r.label == label)):
						if fs != nil && fs.Post != nil {
							for _, pr := range in.exec(fs.Post, r.st) {
								work = append(work, pr.st)
							}
						} else {
							work = append(work, r.st)
						}
					case r.c == cBreak && (r.label == "" || r.label == label):
						// leaving through break is told apart from exhausting the loop
						if spec != nil && len(spec.Cases) > 0 {
							r.st.Ref = "break:" + r.st.Ref
						}
						r.st.IterNow = outerIter
						out = append(out, result{st: r.st, c: cNext})
					default:
						out = append(out, r)
					}
				}
			}
		}
	}
	// cut markers are internal: drop them, but surface their events as "loop" outcomes
	var final []result
	for _, r := range out {
		if r.c == cContinue && r.label == "<cut>" {
			final = append(final, result{st: r.st, c: ctrl(99)})
			continue
		}
		final = append(final, r)
	}
	return final
}

func (in *Interp) rangeConcrete(rs *ast.RangeStmt, l List, starts []*State, label string) []result {
	var out []result
	cur := starts
	for i, el := range l.Elems {
		var nxt []*State
		for _, s := range cur {
			if id, ok := rs.Key.(*ast.Ident); ok && id.Name != "_" {
				if o := in.info().Defs[id]; o != nil {
					s.env[o] = Int(int64(i))
				}
			}
			if id, ok := rs.Value.(*ast.Ident); ok && id.Name != "_" {
				if o := in.info().Defs[id]; o != nil {
					s.env[o] = el
				}
			}
			for _, r := range in.execBlock(rs.Body.List, s) {
				switch {
				case r.c == cNext || (r.c == cContinue && (r.label == "" || r.label == label)):
					nxt = append(nxt, r.st)
				case r.c == cBreak && (r.label == "" || r.label == label):
					out = append(out, result{st: r.st, c: cNext})
				default:
					out = append(out, r)
				}
			}
		}
		cur = nxt
	}
	for _, s := range cur {
		out = append(out, result{st: s, c: cNext})
	}
	return out
}

// CondResult is one way a condition can evaluate.
type CondResult struct {
	Value   bool
	Assumed map[string]bool
	Events  []Event
}

// RunCond evaluates a single boolean expression in an empty environment (free
// identifiers become opaque terms named after themselves).
func (in *Interp) RunCond(e ast.Expr) (res []CondResult, err error) {
	defer func() {
		if r := recover(); r != nil {
			if u, ok := r.(Undecided); ok {
				err = fmt.Errorf("%s: %s", in.Prog.Pos(u.Pos), u.What)
				return
			}
			panic(r)
		}
	}()
	if in.MaxPaths == 0 {
		in.MaxPaths = 4096
	}
	in.paths = 0
	in.loopIDs = map[ast.Stmt]int{}
	id := 0
	st := &State{env: map[types.Object]Val{}, heap: map[int]*Obj{}, nextID: &id, Assumed: map[string]bool{}, Iter: map[ast.Stmt]string{}}
	for _, cb := range in.cond(e, st) {
		res = append(res, CondResult{Value: cb.b, Assumed: cb.st.Assumed, Events: cb.st.Events})
	}
	return res, nil
}
