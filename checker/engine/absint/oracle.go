package absint

import "strings"

// Rel is the abstract relation between two opaque terms.
type Rel string

const (
	LT Rel = "lt"
	EQ Rel = "eq"
	GT Rel = "gt"
	UN Rel = "unordered" // neither <, > nor == (a NaN is involved)
)

// OrderOracle answers the atoms (a < b), (a <= b), (a == b) for the pairs whose
// relation is given. Key "a|b".
type OrderOracle map[string]Rel

func (o OrderOracle) Set(a, b string, r Rel) {
	o[a+"|"+b] = r
	inv := map[Rel]Rel{LT: GT, GT: LT, EQ: EQ, UN: UN}[r]
	o[b+"|"+a] = inv
}

func (o OrderOracle) rel(a, b string) (Rel, bool) {
	r, ok := o[a+"|"+b]
	return r, ok
}

// Decide parses an atom and answers it if the relation of its operands is known.
func (o OrderOracle) Decide(atom string) (bool, bool) {
	if !strings.HasPrefix(atom, "(") || !strings.HasSuffix(atom, ")") {
		return false, false
	}
	body := atom[1 : len(atom)-1]
	for _, op := range []string{" == ", " <= ", " < "} {
		// split at the top-level operator
		depth := 0
		for i := 0; i+len(op) <= len(body); i++ {
			switch body[i] {
			case '(', '[':
				depth++
			case ')', ']':
				depth--
			}
			if depth == 0 && body[i:i+len(op)] == op {
				a, b := body[:i], body[i+len(op):]
				r, ok := o.rel(a, b)
				if !ok {
					break
				}
				switch op {
				case " == ":
					return r == EQ, true
				case " < ":
					return r == LT, true
				case " <= ":
					return r == LT || r == EQ, true
				}
			}
		}
	}
	return false, false
}
