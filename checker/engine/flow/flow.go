// Package flow is a small forward must-analysis over go/cfg graphs. The state is
// a set of facts that hold on *all* paths reaching a point (meet = intersection).
package flow

import (
	"go/ast"
	"sort"
	"strings"

	"golang.org/x/tools/go/cfg"
)

type Facts map[string]bool

func (f Facts) Clone() Facts {
	g := make(Facts, len(f))
	for k := range f {
		g[k] = true
	}
	return g
}

func (f Facts) String() string {
	ks := make([]string, 0, len(f))
	for k := range f {
		ks = append(ks, k)
	}
	sort.Strings(ks)
	return "{" + strings.Join(ks, ",") + "}"
}

func intersect(a, b Facts) Facts {
	out := Facts{}
	for k := range a {
		if b[k] {
			out[k] = true
		}
	}
	return out
}

func equal(a, b Facts) bool {
	if len(a) != len(b) {
		return false
	}
	for k := range a {
		if !b[k] {
			return false
		}
	}
	return true
}

// Problem describes one analysis.
type Problem struct {
	// Transfer updates the facts across node n (in place or by returning a new set).
	Transfer func(n ast.Node, in Facts) Facts
	// Edge refines the facts along the edge from block b to its succ-th successor
	// (0 = condition true, 1 = condition false when the block ends in a condition).
	// cond is the last node of b when b has two successors, else nil. May be nil.
	Edge func(cond ast.Expr, succ int, in Facts) Facts
	// Visit is called, after the fixpoint, for every node with the facts holding before it.
	Visit func(n ast.Node, before Facts)
}

func mayReturn(*ast.CallExpr) bool { return true }

func New(body *ast.BlockStmt) *cfg.CFG { return cfg.New(body, mayReturn) }

// CondOf returns the branch condition of a block with two successors.
func CondOf(b *cfg.Block) ast.Expr {
	if len(b.Succs) != 2 || len(b.Nodes) == 0 {
		return nil
	}
	e, _ := b.Nodes[len(b.Nodes)-1].(ast.Expr)
	return e
}

// Run computes the fixpoint and then calls Visit on every reachable node.
func Run(g *cfg.CFG, init Facts, p Problem) {
	if len(g.Blocks) == 0 {
		return
	}
	in := map[*cfg.Block]Facts{}
	in[g.Blocks[0]] = init.Clone()
	work := []*cfg.Block{g.Blocks[0]}
	for len(work) > 0 {
		b := work[0]
		work = work[1:]
		st := in[b].Clone()
		for _, n := range b.Nodes {
			st = p.Transfer(n, st)
		}
		cond := CondOf(b)
		for i, s := range b.Succs {
			out := st
			if p.Edge != nil {
				out = p.Edge(cond, i, st.Clone())
			}
			old, seen := in[s]
			var nw Facts
			if !seen {
				nw = out.Clone()
			} else {
				nw = intersect(old, out)
			}
			if !seen || !equal(old, nw) {
				in[s] = nw
				work = append(work, s)
			}
		}
	}
	if p.Visit == nil {
		return
	}
	for _, b := range g.Blocks {
		st, ok := in[b]
		if !ok {
			continue // unreachable
		}
		st = st.Clone()
		for _, n := range b.Nodes {
			p.Visit(n, st)
			st = p.Transfer(n, st.Clone())
		}
	}
}
