package octosql

// Copy into <repo>/octosql/ and run:
//   go test -vet=off -count=1 -run TestH3TypeSumFieldOrder ./octosql/

import "testing"

func h3obj(fields ...StructField) Type {
	return Type{TypeID: TypeIDStruct, Struct: struct{ Fields []StructField }{Fields: fields}}
}

// Both operands have the SAME field set in the SAME order (b, a) - only a field type differs.
func TestH3TypeSumFieldOrder(t *testing.T) {
	a := h3obj(StructField{"b", Int}, StructField{"a", Int})
	b := h3obj(StructField{"b", Int}, StructField{"a", String})
	sum := TypeSum(a, b)
	t.Logf("TypeSum(%s, %s) = %s", a, b, sum)
	if a.Is(sum) != TypeRelationIs {
		t.Errorf("%s is not a subtype of TypeSum(a, b) = %s", a, sum)
	}
	if b.Is(sum) != TypeRelationIs {
		t.Errorf("%s is not a subtype of TypeSum(a, b) = %s", b, sum)
	}
	want := h3obj(StructField{"b", Int}, StructField{"a", TypeSum(Int, String)})
	if !sum.Equals(want) {
		t.Errorf("TypeSum = %s, want %s", sum, want)
	}

	// Consequence one level up: the sum of two list/union types containing such objects isn't an upper bound either.
	la := Type{TypeID: TypeIDList, List: struct{ Element *Type }{Element: &a}}
	lb := Type{TypeID: TypeIDList, List: struct{ Element *Type }{Element: &b}}
	if ls := TypeSum(la, lb); la.Is(ls) != TypeRelationIs || lb.Is(ls) != TypeRelationIs {
		t.Errorf("%s / %s are not subtypes of their TypeSum %s", la, lb, ls)
	}
	na, nb := TypeSum(a, Null), TypeSum(b, Null)
	if ns := TypeSum(na, nb); na.Is(ns) != TypeRelationIs || nb.Is(ns) != TypeRelationIs {
		t.Errorf("%s / %s are not subtypes of their TypeSum %s", na, nb, ns)
	}
}
