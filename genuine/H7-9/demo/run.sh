#!/bin/bash
# Finding 9 demo. Usage: bash run.sh   (set OCTOSQL=/path/to/octosql to use another binary)
O=${OCTOSQL:-/tmp/wt/H7/_out/octosql}
export HOME=$(mktemp -d) OCTOSQL_NO_TELEMETRY=1
D=$(mktemp -d); cd $D
flt() { grep -v '^  \|^$\|^Usage\|^Examples\|^Flags\|^Available\|^octosql \|^Use \|^goroutine\|^	\|^github.com\|^main\.\|^runtime\.\|^created by'; }
run() { echo "\$ octosql \"$Q\" $*"; $O "$Q" "$@" 2>&1 | flt; echo; }
printf 'id,k,v\n1,1,x\n2,2,y\n3,,z\n4,2,w\n5,7,q\n' > a.csv
printf 'id,k,name\n10,1,one\n11,2,two\n12,,nul\n13,2,deux\n14,9,nine\n' > b.csv
cat > sx.csv <<'XX'
id,k,t
1,1,2020-01-01T00:00:01Z
2,2,2020-01-01T00:00:30Z
XX
cat > sy.csv <<'XX'
id,k,t
10,1,2020-01-01T00:00:02Z
11,3,2020-01-01T00:00:39Z
12,1,2020-01-01T00:00:40Z
13,2,2020-01-01T00:00:41Z
XX
X="max_diff_watermark(source=>TABLE(sx.csv), max_diff=>INTERVAL 1 SECOND, time_field=>DESCRIPTOR(t)) x"
Y="max_diff_watermark(source=>TABLE(sy.csv), max_diff=>INTERVAL 1 SECOND, time_field=>DESCRIPTOR(t)) y"
echo "### reference: end of stream trigger"
Q="SELECT x.t, count(*) as c FROM $X JOIN $Y ON x.k = y.k GROUP BY x.t"; run -o csv
echo "### the join's changelog: after watermark 00:00:29 it still emits a row whose time field x.t is 00:00:01"
Q="SELECT x.id, x.t, y.id, y.t FROM $X JOIN $Y ON x.k = y.k"; run -o stream_native
echo "### group by the join's time field, TRIGGER ON WATERMARK: the key 00:00:01 fires twice, the plan claims it can't retract"
Q="SELECT x.t, count(*) as c FROM $X JOIN $Y ON x.k = y.k GROUP BY x.t TRIGGER ON WATERMARK"
run -o stream_native
run -o csv
run -o json
run --describe
