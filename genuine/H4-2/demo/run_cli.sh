#!/bin/sh
# Usage: run_cli.sh /path/to/octosql   (built from the unchanged tree: go build -o octosql .)
# LEFT JOIN + LIMIT / ORDER BY .. LIMIT give wrong rows (or panic) when left rows arrive before their right matches.
# The right file is large and has its matching rows at the very end, so the 5 left rows are always processed first.
OCTOSQL=${1:-./octosql}
export OCTOSQL_NO_TELEMETRY=1
D=$(mktemp -d); cd "$D"
python3 - <<'PY'
with open('l.json','w') as f:
    for i in range(1,6):
        f.write('{"id": %d, "name": "n%d"}\n' % (i,i))
with open('r_all.json','w') as f:          # matches for ids 1..5, at the end
    for i in range(300000):
        f.write('{"rid": %d, "val": "x"}\n' % (-i-1))
    for i in range(1,6):
        f.write('{"rid": %d, "val": "v%d"}\n' % (i,i))
with open('r_two.json','w') as f:          # matches for ids 1..2 only, at the end
    for i in range(300000):
        f.write('{"rid": %d, "val": "x"}\n' % (-i-1))
    for i in range(1,3):
        f.write('{"rid": %d, "val": "v%d"}\n' % (i,i))
PY
echo "== (reference) full LEFT JOIN, r_all"
"$OCTOSQL" "SELECT l.id, l.name, r.val FROM l.json l LEFT JOIN r_all.json r ON l.id = r.rid" -o batch_table
echo "== A: same query with LIMIT 3  (every returned row must be one of the 5 reference rows)"
"$OCTOSQL" "SELECT l.id, l.name, r.val FROM l.json l LEFT JOIN r_all.json r ON l.id = r.rid LIMIT 3" -o batch_table
echo "== (reference) full LEFT JOIN ordered, r_two"
"$OCTOSQL" "SELECT l.id, l.name, r.val FROM l.json l LEFT JOIN r_two.json r ON l.id = r.rid ORDER BY r.val, l.id" -o batch_table
echo "== B: same query with LIMIT 3  (must be the first 3 reference rows)"
"$OCTOSQL" "SELECT l.id, l.name, r.val FROM l.json l LEFT JOIN r_two.json r ON l.id = r.rid ORDER BY r.val, l.id LIMIT 3" -o batch_table
echo "== B': same with -o json"
"$OCTOSQL" "SELECT l.id, l.name, r.val FROM l.json l LEFT JOIN r_two.json r ON l.id = r.rid ORDER BY r.val, l.id LIMIT 3" -o json
echo "== C: ORDER BY l.id DESC LIMIT 3 over r_all (panics)"
"$OCTOSQL" "SELECT l.id, l.name, r.val FROM l.json l LEFT JOIN r_all.json r ON l.id = r.rid ORDER BY l.id DESC LIMIT 3" -o batch_table 2>&1 | head -4
