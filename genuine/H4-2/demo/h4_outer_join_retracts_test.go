package nodes_test

// Copy into execution/nodes/ and run:
//   go test -vet=off -count=1 -run TestH4OuterJoinEmitsRetractions ./execution/nodes/
//
// logical/join.go (OuterJoin.Typecheck) declares the outer join's output schema as
//   NoRetractions: left.Schema.NoRetractions && right.Schema.NoRetractions
// This test feeds the real OuterJoin node two retraction-free inputs, with the schedule forced so that the left record
// is processed before its right match, and shows that the output nevertheless contains a retraction.

import (
	"testing"
	"time"

	. "github.com/cube2222/octosql/execution"
	"github.com/cube2222/octosql/execution/nodes"
	"github.com/cube2222/octosql/octosql"
)

type h4GatedSource struct {
	records []Record
	gate    chan struct{} // one token per record, one more before end of stream
}

func (s *h4GatedSource) Run(ctx ExecutionContext, produce ProduceFn, metaSend MetaSendFn) error {
	for _, r := range s.records {
		<-s.gate
		if err := produce(ProduceFromExecutionContext(ctx), r); err != nil {
			return err
		}
	}
	<-s.gate
	return nil
}

func TestH4OuterJoinEmitsRetractionsForRetractionFreeInputs(t *testing.T) {
	left := &h4GatedSource{gate: make(chan struct{}), records: []Record{
		NewRecord([]octosql.Value{octosql.NewInt(1), octosql.NewString("n1")}, false, time.Time{}),
	}}
	right := &h4GatedSource{gate: make(chan struct{}), records: []Record{
		NewRecord([]octosql.Value{octosql.NewInt(1), octosql.NewString("v1")}, false, time.Time{}),
	}}
	key := []Expression{NewVariable(0, 0)}
	join := nodes.NewOuterJoin(left, right, 2, 2, key, key, true, false) // LEFT JOIN ON left.0 = right.0

	go func() {
		step := func(c chan struct{}) { c <- struct{}{}; time.Sleep(20 * time.Millisecond) }
		step(left.gate)  // left record
		step(right.gate) // right record (arrives after the left one has been processed)
		step(left.gate)  // left end of stream
		step(right.gate) // right end of stream
	}()

	retractions := 0
	err := join.Run(ExecutionContext{}, func(ctx ProduceContext, r Record) error {
		t.Logf("output: %s", r.String())
		if r.Retraction {
			retractions++
		}
		return nil
	}, func(ctx ProduceContext, msg MetadataMessage) error { return nil })
	if err != nil {
		t.Fatal(err)
	}
	if retractions > 0 {
		t.Errorf("outer join over two retraction-free inputs emitted %d retraction(s); its schema (logical/join.go) claims NoRetractions=true, so LIMIT / ORDER BY..LIMIT / the table printer treat every record as final", retractions)
	}
}
