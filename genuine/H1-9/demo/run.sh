#!/bin/sh
# Finding 9: OFFSET (both spellings), ORDER BY <position> and LIKE ... ESCAPE are parsed and then ignored.
cd "$(dirname "$0")"
. ../../common.sh
cat > u.csv <<'X'
a,b
1,1
1,2
2,0
3,7
X
for fmt in csv; do
check "LIMIT 2 OFFSET 1 ($fmt)" "a,b
1,2
2,0" "select a, b from u.csv order by a, b limit 2 offset 1" -o $fmt
check "LIMIT 1, 2 (MySQL spelling of OFFSET 1 LIMIT 2) ($fmt)" "a,b
1,2
2,0" "select a, b from u.csv order by a, b limit 1, 2" -o $fmt
check "nested LIMIT 2 OFFSET 1" "a,b
1,2
2,0" "select * from (select a, b from u.csv order by a, b limit 2 offset 1) x order by a, b" -o $fmt
done
check "ORDER BY 2 DESC sorts by the second column, descending" "a,b
3,7
1,2
1,1
2,0" "select a, b from u.csv order by 2 desc" -o csv
check "ORDER BY 2 DESC LIMIT 1 is the row with the largest b" "a,b
3,7" "select a, b from u.csv order by 2 desc limit 1" -o csv
check "LIKE ... ESCAPE" "x,y
true,false" "select 'a%' like 'a!%' escape '!' as x, 'ab' like 'a!%' escape '!' as y" -o csv
finish
