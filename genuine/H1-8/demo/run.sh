#!/bin/sh
# Finding 8: x NOT IN (..., NULL) is TRUE instead of NULL (and x IN (..., NULL) is FALSE instead of NULL).
cd "$(dirname "$0")"
. ../../common.sh
cat > t.csv <<'X'
a,b
1,x
2,y
,z
3,w
X
printf 'k\n2\n\n5\n' > s.csv
check "a NOT IN (2, NULL) keeps no row" "a,b" "select a, b from t.csv where a not in (2, null)" -o csv
check "a NOT IN (subquery containing NULL) keeps no row" "a,b" "select a, b from t.csv where a not in (select k from s.csv)" -o csv
check "NOT (a IN (2, NULL)) keeps no row" "a,b" "select a, b from t.csv where not (a in (2, null))" -o csv
check "three-valued result of IN / NOT IN" '{"a":1,"x":null,"y":null}
{"a":2,"x":false,"y":true}
{"a":null,"x":null,"y":null}
{"a":3,"x":null,"y":null}' "select a, a not in (2, null) as x, a in (2, null) as y from t.csv" -o json
finish
