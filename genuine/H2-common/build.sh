#!/bin/bash
# Builds the unchanged octosql CLI from the worktree into /tmp/wt/H2/_out/octosql (if not already there)
# and exports OCTOSQL pointing to it. Source this file: `. ../../common/build.sh`
export GOFLAGS=-mod=mod GOPROXY=off GOSUMDB=off GOTOOLCHAIN=local OCTOSQL_NO_TELEMETRY=1
unset GOWORK
ROOT=/tmp/wt/H2
export OCTOSQL=$ROOT/_out/octosql
if [ ! -x "$OCTOSQL" ]; then
  echo "building octosql (takes about a minute) ..." >&2
  (cd $ROOT && go build -o "$OCTOSQL" .) || exit 1
fi
