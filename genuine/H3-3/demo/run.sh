#!/bin/sh
# Usage: OCTOSQL_BIN=/path/to/octosql ./run.sh
export OCTOSQL_NO_TELEMETRY=1
BIN=${OCTOSQL_BIN:-octosql}
echo "expected: {\"a\":\"ółw\",\"b\":\"ż\",\"c\":true}; observed (hex dump shows the torn UTF-8 sequences, the output is not valid JSON):"
$BIN "select substr('żółw', 1) as a, substr('żółw', 0, 1) as b, 'żółw' like '____' as c" -o json | od -c
