package functions

// Copy into <repo>/functions/ and run:
//   go test -vet=off -count=1 -run TestH3Substr ./functions/

import (
	"strings"
	"testing"
	"unicode/utf8"

	"github.com/cube2222/octosql/octosql"
)

func TestH3SubstrMultibyte(t *testing.T) {
	fm := FunctionMap()
	substr2 := fm["substr"].Descriptors[0].Function
	substr3 := fm["substr"].Descriptors[1].Function
	reverse := fm["reverse"].Descriptors[0].Function
	like := fm["like"].Descriptors[0].Function

	s := "żółw" // 4 characters, 7 bytes
	for start := int64(0); start <= 4; start++ {
		got, err := substr2([]octosql.Value{octosql.NewString(s), octosql.NewInt(start)})
		if err != nil {
			t.Fatal(err)
		}
		want := string([]rune(s)[start:])
		if !utf8.ValidString(got.Str) || !strings.Contains(s, got.Str) {
			t.Errorf("substr(%q, %d) = %q: not a substring of the argument / not valid UTF-8 (want %q)", s, start, got.Str, want)
		} else if got.Str != want {
			t.Errorf("substr(%q, %d) = %q, want %q", s, start, got.Str, want)
		}
		for length := int64(0); length <= 2; length++ {
			got, err := substr3([]octosql.Value{octosql.NewString(s), octosql.NewInt(start), octosql.NewInt(length)})
			if err != nil {
				t.Fatal(err)
			}
			if !utf8.ValidString(got.Str) {
				t.Errorf("substr(%q, %d, %d) = %q: invalid UTF-8", s, start, length, got.Str)
			}
		}
	}

	// The other string functions of the same table are character based ('żółw' LIKE '____' is true,
	// reverse() swaps characters), so they disagree with substr about what an index means.
	m, _ := like([]octosql.Value{octosql.NewString(s), octosql.NewString("____")})
	if !m.Boolean {
		t.Fatalf("precondition: LIKE counts characters")
	}
	_ = reverse
}
