#!/bin/sh
# usage: sh run.sh [path-to-octosql-binary]
OCTOSQL=${1:-/tmp/wt/H6/_out/octosql}
export OCTOSQL_NO_TELEMETRY=1
D=$(mktemp -d); cd "$D"
cat > u.csv <<'C'
k,g,v,s
1,a,10,x
2,a,,y
3,b,-7,
4,b,-8,z
5,,6,x
6,,,x
7,a,12,y
C
echo "--- Q1: three aggregates under one alias (expected s=13 (sum), s_1=5 (count), s_2=12 (max))"
"$OCTOSQL" "SELECT sum(v) AS s, count(v) AS s, max(v) AS s FROM u.csv" -o csv 2>&1 | tail -2
echo "--- Q1b: reference, the same aggregates with distinct aliases"
"$OCTOSQL" "SELECT sum(v) AS s, count(v) AS c, max(v) AS m FROM u.csv" -o csv 2>&1 | tail -2
echo "--- Q2: explicit alias s_1 first, then two s (expected s_1=-8 (min), s=13 (sum), third=12 (max))"
"$OCTOSQL" "SELECT min(v) AS s_1, sum(v) AS s, max(v) AS s FROM u.csv" -o csv 2>&1 | tail -2
echo "--- Q3: key column aliased key_1 while the second key is not selected (expected key_1 = values of g: a,a,b,b,NULL,..)"
"$OCTOSQL" "SELECT g AS key_1, count(*) AS c FROM u.csv GROUP BY g, s ORDER BY key_1, c" -o csv 2>&1 | tail -6
echo "--- Q3b: reference, same query with another alias"
"$OCTOSQL" "SELECT g AS gg, count(*) AS c FROM u.csv GROUP BY g, s ORDER BY gg, c" -o csv 2>&1 | tail -6
echo "--- Q4: the key selected twice (valid SQL; expected rows a,a,3 / b,b,2 / NULL,NULL,2)"
"$OCTOSQL" "SELECT g, g, count(*) FROM u.csv GROUP BY g" -o csv 2>&1 | tail -3
rm -rf "$D"
