#!/bin/sh
WT=${WT:-/tmp/wt/H10}
export GOFLAGS=-mod=mod GOPROXY=off GOSUMDB=off GOTOOLCHAIN=local OCTOSQL_NO_TELEMETRY=1
[ -x $WT/_out/octosql ] || (cd $WT && go build -o $WT/_out/octosql .)
D=$(mktemp -d); cd $D
printf '%s\n' '=== (a) separator \n (default): records ending in \r'
printf 'a\r\nb\rc\n\r\nlast\r' > data.lines
echo "--- data.lines (od -c):"; od -c data.lines | head -3
printf '%s\n' "--- expected records when splitting exactly at \\n:  'a\\r' | 'b\\rc' | '\\r' | 'last\\r'"
echo "--- octosql SELECT number, text, len(text) FROM data.lines -o json:"
$WT/_out/octosql "SELECT number, text, len(text) as l FROM data.lines" -o json 2>&1 | tail -4
echo "--- the same with the separator given explicitly (sep=<newline>):"
$WT/_out/octosql 'SELECT number, text, len(text) as l FROM `data.lines?sep=
`' -o json 2>&1 | tail -4
printf '%s\n' '--- with any other separator the bytes are kept (sep=; and the same content with ; instead of \n):'
printf 'a\r;b\rc;\r;last\r' > semi.lines
$WT/_out/octosql 'SELECT number, text, len(text) as l FROM `semi.lines?sep=;`' -o json 2>&1 | tail -4
echo
echo "=== (b) a record longer than 64 KiB"
python3 -c "
import sys
sys.stdout.write('x' * 70000 + '\n' + 'short\n')" > long.lines
$WT/_out/octosql "SELECT number, len(text) as l FROM long.lines" -o json 2>&1 | tail -2
echo "--- the json source reads the same amount of data per line without problems:"
python3 -c "
import sys
sys.stdout.write('{\"s\":\"' + 'x' * 70000 + '\"}\n{\"s\":\"short\"}\n')" > long.json
$WT/_out/octosql "SELECT len(s) as l FROM long.json" -o json 2>&1 | tail -2
rm -rf $D
