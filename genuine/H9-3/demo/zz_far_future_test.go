package stream

import (
	"context"
	"testing"
	"time"

	. "github.com/cube2222/octosql/execution"
	"github.com/cube2222/octosql/octosql"
)

type sliceNode struct {
	records []Record
}

func (s *sliceNode) Run(ctx ExecutionContext, produce ProduceFn, metaSend MetaSendFn) error {
	for _, r := range s.records {
		if err := produce(ProduceFromExecutionContext(ctx), r); err != nil {
			return err
		}
	}
	return nil
}

// C22: "by end of stream everything has been emitted".
func TestWrapperEmitsEverythingByEndOfStream(t *testing.T) {
	in := []Record{
		NewRecord([]octosql.Value{octosql.NewInt(1)}, false, time.Date(2021, 1, 1, 0, 0, 0, 0, time.UTC)),
		NewRecord([]octosql.Value{octosql.NewInt(2)}, false, time.Date(2262, 4, 12, 0, 0, 0, 0, time.UTC)),
		NewRecord([]octosql.Value{octosql.NewInt(3)}, false, time.Date(2300, 1, 1, 0, 0, 0, 0, time.UTC)),
	}
	node := &InternallyConsistentOutputStreamWrapper{Source: &sliceNode{records: in}}
	var out []Record
	err := node.Run(ExecutionContext{Context: context.Background()},
		func(ctx ProduceContext, record Record) error { out = append(out, record); return nil },
		func(ctx ProduceContext, msg MetadataMessage) error { return nil })
	if err != nil {
		t.Fatal(err)
	}
	for _, r := range out {
		t.Logf("emitted: %v @ %s", r.Values, r.EventTime.Format(time.RFC3339))
	}
	if len(out) != len(in) {
		t.Fatalf("input had %d records, only %d were emitted by end of stream", len(in), len(out))
	}
}
