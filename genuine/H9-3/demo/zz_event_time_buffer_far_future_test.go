package nodes

import (
	"context"
	"testing"
	"time"

	. "github.com/cube2222/octosql/execution"
	"github.com/cube2222/octosql/octosql"
)

type farSliceNode struct{ records []Record }

func (s *farSliceNode) Run(ctx ExecutionContext, produce ProduceFn, metaSend MetaSendFn) error {
	for _, r := range s.records {
		if err := produce(ProduceFromExecutionContext(ctx), r); err != nil {
			return err
		}
	}
	return nil
}

// copy into execution/nodes/ and run: go test -vet=off -count=1 -v -run TestEventTimeBufferFlushesEverything ./execution/nodes/
func TestEventTimeBufferFlushesEverything(t *testing.T) {
	in := []Record{
		NewRecord([]octosql.Value{octosql.NewInt(1)}, false, time.Date(2021, 1, 1, 0, 0, 0, 0, time.UTC)),
		NewRecord([]octosql.Value{octosql.NewInt(2)}, false, time.Date(2262, 4, 12, 0, 0, 0, 0, time.UTC)),
		NewRecord([]octosql.Value{octosql.NewInt(3)}, false, time.Date(2300, 1, 1, 0, 0, 0, 0, time.UTC)),
	}
	var out []Record
	err := NewEventTimeBuffer(&farSliceNode{records: in}).Run(ExecutionContext{Context: context.Background()},
		func(ctx ProduceContext, record Record) error { out = append(out, record); return nil },
		func(ctx ProduceContext, msg MetadataMessage) error { return nil })
	if err != nil {
		t.Fatal(err)
	}
	if len(out) != len(in) {
		t.Fatalf("%d records went in, %d came out at end of stream: %v", len(in), len(out), out)
	}
}
