#!/bin/sh
OCTOSQL=${OCTOSQL:-/tmp/wt/H9/_out/octosql}
cd "$(dirname "$0")"
cat far.json
W="WITH a AS (SELECT * FROM max_diff_watermark(source=>TABLE(far.json), max_diff=>INTERVAL 0 SECONDS, time_field=>DESCRIPTOR(t)) w)"
echo "--- reference: plain batch grouping (default trigger)"
$OCTOSQL "$W SELECT k, count(*) as c, sum(x) as s FROM a GROUP BY k" -o json
for trig in "COUNTING 1" "COUNTING 2" "ON END OF STREAM, COUNTING 5"; do
  echo "--- TRIGGER $trig  (expected: the same two rows)"
  $OCTOSQL "$W SELECT k, count(*) as c, sum(x) as s FROM a GROUP BY k TRIGGER $trig" -o json
done
echo "--- windowed, TRIGGER ON WATERMARK: reference without trigger, then with"
$OCTOSQL "$W, tt AS (SELECT * FROM tumble(source=>TABLE(a), window_length=>INTERVAL 10 SECONDS) tt) SELECT window_end, count(*) as c FROM tt GROUP BY window_end" -o json
echo "   (with trigger:)"
$OCTOSQL "$W, tt AS (SELECT * FROM tumble(source=>TABLE(a), window_length=>INTERVAL 10 SECONDS) tt) SELECT window_end, count(*) as c FROM tt GROUP BY window_end TRIGGER ON WATERMARK" -o json
echo "--- stream_native of TRIGGER COUNTING 1: only watermarks, no record ever leaves the group by"
$OCTOSQL "$W SELECT k, count(*) as c FROM a GROUP BY k TRIGGER COUNTING 1" -o stream_native
