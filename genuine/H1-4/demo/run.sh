#!/bin/sh
# Finding 4: GROUP BY is dropped when the select list has no aggregate; HAVING is dropped always.
cd "$(dirname "$0")"
. ../../common.sh
cat > t.csv <<'X'
a,b
1,x
2,y
1,x
,z
3,
,z
X
check "GROUP BY without an aggregate returns one row per key" '{"a":null}
{"a":1}
{"a":2}
{"a":3}' "select a from t.csv group by a order by a" -o json
check "GROUP BY two keys without an aggregate" "a,b
,z
1,x
2,y
3," "select a, b from t.csv group by a, b order by a" -o csv
check "HAVING filters groups" "a,n
,2
1,2" "select a, count(*) as n from t.csv group by a having count(*) > 1 order by a" -o csv
check "HAVING on the key" "a,n
2,1
3,1" "select a, count(*) as n from t.csv group by a having a > 1 order by a" -o csv
finish
