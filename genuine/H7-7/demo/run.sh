#!/bin/bash
# Finding 7 demo. Usage: bash run.sh   (set OCTOSQL=/path/to/octosql to use another binary)
O=${OCTOSQL:-/tmp/wt/H7/_out/octosql}
export HOME=$(mktemp -d) OCTOSQL_NO_TELEMETRY=1
D=$(mktemp -d); cd $D
flt() { grep -v '^  \|^$\|^Usage\|^Examples\|^Flags\|^Available\|^octosql \|^Use \|^goroutine\|^	\|^github.com\|^main\.\|^runtime\.\|^created by'; }
run() { echo "\$ octosql \"$Q\" $*"; $O "$Q" "$@" 2>&1 | flt; echo; }
printf 'id,k,v\n1,1,x\n2,2,y\n3,,z\n4,2,w\n5,7,q\n' > a.csv
printf 'id,k,name\n10,1,one\n11,2,two\n12,,nul\n13,2,deux\n14,9,nine\n' > b.csv
W="WITH t AS (SELECT a.id as id, a.k as k FROM a.csv a)"
echo "### the alias of a reference to a common table expression can't be used to qualify its columns"
Q="$W SELECT x.id, b.id FROM t x JOIN b.csv b ON x.k = b.k"; run -o csv
echo "### neither can the name of the common table expression"
Q="$W SELECT t.id, b.id FROM t JOIN b.csv b ON t.k = b.k"; run -o csv
echo "### so a self join of a common table expression is impossible"
Q="$W SELECT x.id, y.id FROM t x JOIN t y ON x.k = y.k AND x.id < y.id"; run -o csv
echo "### the same three queries with a derived table instead of the reference"
Q="SELECT x.id, b.id FROM (SELECT a.id as id, a.k as k FROM a.csv a) x JOIN b.csv b ON x.k = b.k"; run -o csv
Q="SELECT x.id, y.id FROM (SELECT a.id as id, a.k as k FROM a.csv a) x JOIN (SELECT a.id as id, a.k as k FROM a.csv a) y ON x.k = y.k AND x.id < y.id"; run -o csv
echo "### instead, the qualifiers used inside the common table expression leak out of it"
Q="WITH t AS (SELECT * FROM a.csv a) SELECT a.id, b.id FROM t x JOIN b.csv b ON a.k = b.k"; run -o csv
