package nodes_test

// Copy into execution/nodes/ and run:
//   go test -vet=off -count=1 -v -run TestH4GroupByEndOfStreamFlush ./execution/nodes/

import (
	"testing"
	"time"

	"github.com/cube2222/octosql/aggregates"
	. "github.com/cube2222/octosql/execution"
	"github.com/cube2222/octosql/execution/nodes"
	"github.com/cube2222/octosql/octosql"
)

type h4GBMsg struct {
	watermark bool
	t         time.Time
	record    Record
}

type h4GBScripted struct{ msgs []h4GBMsg }

func (s *h4GBScripted) Run(ctx ExecutionContext, produce ProduceFn, metaSend MetaSendFn) error {
	for _, m := range s.msgs {
		if m.watermark {
			if err := metaSend(ProduceFromExecutionContext(ctx), MetadataMessage{Type: MetadataMessageTypeWatermark, Watermark: m.t}); err != nil {
				return err
			}
		} else if err := produce(ProduceFromExecutionContext(ctx), m.record); err != nil {
			return err
		}
	}
	return nil
}

func TestH4GroupByEndOfStreamFlush(t *testing.T) {
	at := func(s int) time.Time { return time.Date(2020, 1, 1, 0, 0, s, 0, time.UTC) }
	// rows: (window_end, user); one record of window (0,10], then the watermark moves to 10 and to 20, then the stream ends.
	stream := []h4GBMsg{
		{record: NewRecord([]octosql.Value{octosql.NewTime(at(10)), octosql.NewString("a")}, false, at(5))},
		{watermark: true, t: at(10)},
		{watermark: true, t: at(20)},
	}
	triggers := map[string]func() Trigger{
		"ON WATERMARK (reference, fine)": NewWatermarkTriggerPrototype(0),
		"ON WATERMARK, ON END OF STREAM": NewMultiTriggerPrototype([]func() Trigger{NewWatermarkTriggerPrototype(0), NewEndOfStreamTriggerPrototype()}),
		"COUNTING 2, ON WATERMARK":       NewMultiTriggerPrototype([]func() Trigger{NewCountingTriggerPrototype(2), NewWatermarkTriggerPrototype(0)}),
		"COUNTING 2":                     NewCountingTriggerPrototype(2),
	}
	for name, trigger := range triggers {
		t.Run(name, func(t *testing.T) {
			gb := nodes.NewCustomTriggerGroupBy(
				[]func() nodes.Aggregate{aggregates.NewCountPrototype()}, []Expression{NewVariable(0, 1)},
				[]Expression{NewVariable(0, 0), NewVariable(0, 1)}, 0 /* window_end is the event time key */, &h4GBScripted{stream}, trigger)
			var lastWatermark time.Time
			emissionsOfKey := 0
			err := gb.Run(ExecutionContext{}, func(ctx ProduceContext, r Record) error {
				t.Logf("record    %s", r.String())
				emissionsOfKey++
				if !r.EventTime.IsZero() && !r.EventTime.After(lastWatermark) {
					t.Errorf("  ^ late: event time %s is at or below the already forwarded watermark %s", r.EventTime.Format("15:04:05"), lastWatermark.Format("15:04:05"))
				}
				return nil
			}, func(ctx ProduceContext, msg MetadataMessage) error {
				t.Logf("watermark %s", msg.Watermark.Format("15:04:05"))
				lastWatermark = msg.Watermark
				return nil
			})
			if err != nil {
				t.Fatal(err)
			}
		})
	}
}
