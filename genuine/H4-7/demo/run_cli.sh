#!/bin/sh
# Usage: run_cli.sh /path/to/octosql
# Inner GROUP BY .. TRIGGER COUNTING 2 forwards watermarks past keys it has not emitted yet and emits them at end of stream with
# their old event time. The outer GROUP BY .. TRIGGER ON WATERMARK (planned as "no retractions") has by then published a
# partial sum as final; with LIMIT the partial value is what the user gets.
OCTOSQL=${1:-./octosql}
export OCTOSQL_NO_TELEMETRY=1
D=$(mktemp -d); cd "$D"
cat > two.json <<'JSON'
{"time": "2020-01-01T10:00:01Z", "user": "a"}
{"time": "2020-01-01T10:00:02Z", "user": "b"}
{"time": "2020-01-01T10:00:03Z", "user": "b"}
{"time": "2020-01-01T10:00:15Z", "user": "c"}
{"time": "2020-01-01T10:00:16Z", "user": "c"}
{"time": "2020-01-01T10:00:25Z", "user": "d"}
{"time": "2020-01-01T10:00:26Z", "user": "d"}
{"time": "2020-01-01T10:00:35Z", "user": "e"}
JSON
Q="WITH w AS (SELECT * FROM max_diff_watermark(source=>TABLE(two.json), max_diff=>INTERVAL 0 SECONDS, time_field=>DESCRIPTOR(time)) c), t AS (SELECT * FROM tumble(source=>TABLE(w), window_length=>INTERVAL 10 SECONDS) c), per_user AS (SELECT window_end, user, COUNT(*) AS c FROM t GROUP BY window_end, user TRIGGER COUNTING 2) SELECT window_end, SUM(c) AS clicks FROM per_user GROUP BY window_end TRIGGER ON WATERMARK"
echo "== changelog of the query (-o stream_native)"; "$OCTOSQL" "$Q" -o stream_native
echo "== full result";                               "$OCTOSQL" "$Q" -o batch_table
echo "== LIMIT 2 (rows must come from the full result)"; "$OCTOSQL" "$Q LIMIT 2" -o batch_table
