#!/bin/sh
WT=${WT:-/tmp/wt/H10}
export GOFLAGS=-mod=mod GOPROXY=off GOSUMDB=off GOTOOLCHAIN=local OCTOSQL_NO_TELEMETRY=1
[ -x $WT/_out/octosql ] || (cd $WT && go build -o $WT/_out/octosql .)
D=$(mktemp -d); cd $D
export HOME=$D/home XDG_CONFIG_HOME=$D/home/.config XDG_DATA_HOME=$D/home/.local XDG_CACHE_HOME=$D/home/.cache
mkdir -p $HOME/.octosql
printf 'files:\n  json:\n    max_line_size_bytes: 8388608\n' > $HOME/.octosql/octosql.yml
echo "--- ~/.octosql/octosql.yml:"; cat $HOME/.octosql/octosql.yml
python3 - <<'P'
import json
big = {'id': 1000, 's': 'x' * 2000000}          # a 2 MB line, allowed by the configured 8 MiB
with open('late.json', 'w') as f:                # the long line is row 151, after the schema preview
    for i in range(150): f.write(json.dumps({'id': i, 's': 'y'}) + '\n')
    f.write(json.dumps(big) + '\n')
with open('early.json', 'w') as f:               # the long line is row 1, inside the schema preview
    f.write(json.dumps(big) + '\n')
    f.write(json.dumps({'id': 2, 's': 'y'}) + '\n')
P
echo "--- long line after the first 100 rows: SELECT id, len(s) FROM late.json WHERE id > 148.0"
$WT/_out/octosql "SELECT id, len(s) as l FROM late.json WHERE id > 148.0" -o json 2>&1 | tail -2
echo "--- the same line within the first 100 rows: SELECT id, len(s) FROM early.json"
$WT/_out/octosql "SELECT id, len(s) as l FROM early.json" -o json 2>&1 | tail -2
rm -rf $D
