package nodes_test

// Copy into execution/nodes/ and run:
//   go test -vet=off -count=1 -v -run TestH4OuterJoinLateRecords ./execution/nodes/
//
// The outcome does not depend on how the two inputs interleave: the right record @15 stays in the join's event-time buffer
// until both inputs have sent watermark 20, i.e. until after watermark 10 has been forwarded.

import (
	"testing"
	"time"

	. "github.com/cube2222/octosql/execution"
	"github.com/cube2222/octosql/execution/nodes"
	"github.com/cube2222/octosql/octosql"
)

type h4Msg struct {
	watermark bool
	t         time.Time
	record    Record
}

type h4Scripted struct{ msgs []h4Msg }

func (s *h4Scripted) Run(ctx ExecutionContext, produce ProduceFn, metaSend MetaSendFn) error {
	for _, m := range s.msgs {
		if m.watermark {
			if err := metaSend(ProduceFromExecutionContext(ctx), MetadataMessage{Type: MetadataMessageTypeWatermark, Watermark: m.t}); err != nil {
				return err
			}
		} else if err := produce(ProduceFromExecutionContext(ctx), m.record); err != nil {
			return err
		}
	}
	return nil
}

func TestH4OuterJoinLateRecords(t *testing.T) {
	at := func(s int) time.Time { return time.Date(2020, 1, 1, 0, 0, s, 0, time.UTC) }
	wm := func(s int) h4Msg { return h4Msg{watermark: true, t: at(s)} }
	rec := func(s int, retraction bool, vals ...octosql.Value) h4Msg {
		return h4Msg{record: NewRecord(vals, retraction, at(s))}
	}
	// Neither input contains a late record (every record is above the last watermark of its own stream).
	left := &h4Scripted{msgs: []h4Msg{rec(5, false, octosql.NewInt(1), octosql.NewString("l")), wm(10), wm(20), wm(30), wm(40)}}
	right := &h4Scripted{msgs: []h4Msg{wm(10), rec(15, false, octosql.NewInt(1), octosql.NewString("r")), wm(20), rec(25, true, octosql.NewInt(1), octosql.NewString("r")), wm(30), wm(40)}}
	key := []Expression{NewVariable(0, 0)}
	join := nodes.NewOuterJoin(left, right, 2, 2, key, key, true, false) // LEFT JOIN

	var lastWatermark time.Time
	late := 0
	err := join.Run(ExecutionContext{}, func(ctx ProduceContext, r Record) error {
		t.Logf("record    %s", r.String())
		if !r.EventTime.IsZero() && !r.EventTime.After(lastWatermark) {
			late++
			t.Errorf("  ^ late: event time %s is at or below the already emitted watermark %s", r.EventTime.Format("15:04:05"), lastWatermark.Format("15:04:05"))
		}
		return nil
	}, func(ctx ProduceContext, msg MetadataMessage) error {
		t.Logf("watermark %s", msg.Watermark.Format("15:04:05"))
		lastWatermark = msg.Watermark
		return nil
	})
	if err != nil {
		t.Fatal(err)
	}
}
