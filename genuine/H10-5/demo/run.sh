#!/bin/sh
WT=${WT:-/tmp/wt/H10}
export GOFLAGS=-mod=mod GOPROXY=off GOSUMDB=off GOTOOLCHAIN=local OCTOSQL_NO_TELEMETRY=1
[ -x $WT/_out/octosql ] || (cd $WT && go build -o $WT/_out/octosql .)
D=$(mktemp -d); cd $D
# 150 rows {"i":n,"x":{"a":n}}, then rows whose object x has an additional field b
python3 - <<'P'
import json
with open('data.json', 'w') as f:
    for i in range(300):
        o = {"i": i, "x": {"a": i}}
        if i >= 150:
            o["x"]["b"] = "important%d" % i
        f.write(json.dumps(o) + "\n")
P
echo "--- file lines 150-152:"; sed -n 150,152p data.json
echo "--- octosql --describe:"; $WT/_out/octosql "SELECT * FROM data.json" --describe | tail -6
echo "--- octosql SELECT * FROM data.json WHERE i > 148.0 AND i < 152.0 -o json:"
$WT/_out/octosql "SELECT * FROM data.json WHERE i > 148.0 AND i < 152.0" -o json 2>&1 | tail -4
echo "--- for comparison, a scalar that doesn't fit the inferred type IS reported:"
printf '{"i":300,"x":{"a":"text"}}\n' >> data.json
$WT/_out/octosql "SELECT x FROM data.json WHERE i = 300.0" -o json 2>&1 | tail -1
rm -rf $D
