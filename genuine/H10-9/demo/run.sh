#!/bin/sh
WT=${WT:-/tmp/wt/H10}
HERE=$(cd $(dirname $0) && pwd)
export GOFLAGS=-mod=mod GOPROXY=off GOSUMDB=off GOTOOLCHAIN=local OCTOSQL_NO_TELEMETRY=1
[ -x $WT/_out/octosql ] || (cd $WT && go build -o $WT/_out/octosql .)
D=$(mktemp -d); cd $D
# 109 byte parquet file: schema {a int64, s string}, num_rows = 0, no row groups (written by TestH10EmptyParquetFile with H10_KEEP=...)
echo 'UEFSMRUCGTxIBmgxMFJvdxUEABUEFYABFQAYAWElJEysE0ARAAAAFQwlABgBcyUATBwAAAAWABkMGQwYH2dpdGh1Yi5jb20vc2VnbWVudGlvL3BhcnF1ZXQtZ28ZLBwAABwAAABhAAAAUEFSMQ==' | base64 -d > empty.parquet
echo "--- octosql SELECT * FROM empty.parquet -o json"
$WT/_out/octosql "SELECT * FROM empty.parquet" -o json 2>&1 | tail -1
echo "--- octosql SELECT count(*) FROM empty.parquet -o json"
$WT/_out/octosql "SELECT count(*) FROM empty.parquet" -o json 2>&1 | tail -1
echo "--- octosql SELECT * FROM empty.parquet --describe"
$WT/_out/octosql "SELECT * FROM empty.parquet" --describe 2>&1 | tail -1
echo "--- go test (stack trace)"
cp $HERE/h10_empty_test.go $WT/datasources/parquet/
(cd $WT && go test -vet=off -count=1 -run TestH10EmptyParquetFile -v ./datasources/parquet/ 2>&1 | grep -v '^\s*$' | head -22)
rm -f $WT/datasources/parquet/h10_empty_test.go
rm -rf $D
