package parquet

// Copy into datasources/parquet/ and run:
//   go test -vet=off -count=1 -run TestH10EmptyParquetFile -v ./datasources/parquet/

import (
	"context"
	"os"
	"path/filepath"
	"testing"

	"github.com/segmentio/parquet-go"

	"github.com/cube2222/octosql/config"
	"github.com/cube2222/octosql/execution"
	"github.com/cube2222/octosql/physical"
)

type h10Row struct {
	A int64  `parquet:"a"`
	S string `parquet:"s"`
}

// A parquet file of a table without rows: magic, no row group, footer with the schema and num_rows = 0.
// (What e.g. Spark writes for an empty DataFrame, or any writer that is closed before a row was written.)
func TestH10EmptyParquetFile(t *testing.T) {
	path := filepath.Join(t.TempDir(), "empty.parquet")
	f, err := os.Create(path)
	if err != nil {
		t.Fatal(err)
	}
	w := parquet.NewWriter(f, parquet.SchemaOf(h10Row{}))
	if err := w.Close(); err != nil {
		t.Fatal(err)
	}
	f.Close()
	if keep := os.Getenv("H10_KEEP"); keep != "" {
		data, _ := os.ReadFile(path)
		os.WriteFile(keep, data, 0644)
	}

	ctx := config.ContextWithConfig(context.Background(), &config.Config{})
	impl, schema, err := Creator(ctx, path, nil) // panics: index out of range [0] with length 0
	if err != nil {
		t.Fatalf("Creator: %v", err)
	}
	t.Logf("schema: %v", schema.Fields)
	node, err := impl.Materialize(ctx, physical.Environment{}, schema, nil)
	if err != nil {
		t.Fatal(err)
	}
	rows := 0
	if err := node.Run(execution.ExecutionContext{Context: ctx}, func(execution.ProduceContext, execution.Record) error {
		rows++
		return nil
	}, func(execution.ProduceContext, execution.MetadataMessage) error { return nil }); err != nil {
		t.Fatal(err)
	}
	if rows != 0 {
		t.Fatalf("got %d rows, want 0", rows)
	}
}
