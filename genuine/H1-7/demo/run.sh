#!/bin/sh
# Finding 7: an ambiguous unqualified column name is resolved by Go map iteration order -> the same query prints different results from run to run.
cd "$(dirname "$0")"
. ../../common.sh
cat > l2.csv <<'X'
id,v
1,L1
2,L2
X
cat > r2.csv <<'X'
id,v
1,R1
2,R2
X
cat > u.csv <<'X'
a,b,c
1,1,9
1,2,5
2,0,0
X
runmany() { # query -> number of distinct outputs over 40 runs
  i=0; : > out.tmp
  while [ $i -lt 40 ]; do i=$((i+1)); "$OCTOSQL" "$1" -o csv 2>&1 | tr '\n' ' ' >> out.tmp; echo >> out.tmp; done
  sort out.tmp | uniq -c
}
echo "--- select v from l2.csv l join r2.csv r on l.id = r.id order by v   (v exists in both tables)"
runmany "select v from l2.csv l join r2.csv r on l.id = r.id order by v" | tee d1.tmp
echo "--- select a from (select a, b as a from u.csv) x   (two output columns named a)"
runmany "select a from (select a, b as a from u.csv) x" | tee d2.tmp
[ "$(wc -l < d1.tmp)" -gt 1 ] && { FAILED=1; echo "FAIL: join query printed $(wc -l < d1.tmp) different results in 40 runs (and no 'ambiguous column' error)"; }
[ "$(wc -l < d2.tmp)" -gt 1 ] && { FAILED=1; echo "FAIL: subquery query printed $(wc -l < d2.tmp) different results in 40 runs"; }
rm -f out.tmp d1.tmp d2.tmp
finish
