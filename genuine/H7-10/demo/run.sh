#!/bin/bash
# Finding 10 demo. Usage: bash run.sh   (set OCTOSQL=/path/to/octosql to use another binary)
O=${OCTOSQL:-/tmp/wt/H7/_out/octosql}
export HOME=$(mktemp -d) OCTOSQL_NO_TELEMETRY=1
D=$(mktemp -d); cd $D
flt() { grep -v '^  \|^$\|^Usage\|^Examples\|^Flags\|^Available\|^octosql \|^Use \|^goroutine\|^	\|^github.com\|^main\.\|^runtime\.\|^created by'; }
run() { echo "\$ octosql \"$Q\" $*"; $O "$Q" "$@" 2>&1 | flt; echo; }
printf 'id,k,v\n1,1,x\n2,2,y\n3,,z\n4,2,w\n5,7,q\n' > a.csv
printf 'id,k,name\n10,1,one\n11,2,two\n12,,nul\n13,2,deux\n14,9,nine\n' > b.csv
cat > old.csv <<'XX'
id,k,t
1,1,1600-01-01T00:00:00Z
2,1,1600-01-02T00:00:00Z
3,1,2020-01-01T00:00:00Z
XX
cat > cur.csv <<'XX'
id,k,t
10,1,2020-01-01T00:00:00Z
XX
X="max_diff_watermark(source=>TABLE(old.csv), max_diff=>INTERVAL 1 SECOND, time_field=>DESCRIPTOR(t)) x"
Y="max_diff_watermark(source=>TABLE(cur.csv), max_diff=>INTERVAL 1 SECOND, time_field=>DESCRIPTOR(t)) y"
echo "### the watermarked source: rows 2 and 3 are gone, the watermark jumps to the year 2184"
Q="SELECT * FROM $X"; run -o stream_native
echo "### a join over it (expected 1,10 2,10 3,10)"
Q="SELECT x.id, y.id FROM $X JOIN $Y ON x.k = y.k"; run -o csv
