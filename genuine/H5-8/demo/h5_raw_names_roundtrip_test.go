package sqlparser

// Copy into parser/sqlparser/ and run:
//   go test -vet=off -count=1 -run TestH5RawNamesRoundTrip ./parser/sqlparser/

import (
	"reflect"
	"testing"
)

func TestH5RawNamesRoundTrip(t *testing.T) {
	for _, sql := range []string{
		"select `select`(a) from t",                 // function whose name is a reserved word
		"select `my func`(1) from t",                // function name that needs quoting
		"select interval 1 `select` from t",         // interval unit
		"select a::`select` from t",                 // cast target type
		"select timestampadd(`select`, 1, a) from t", // unit of timestampadd
		"select a collate 'x y' from t",             // charset given as a string
		"select group_concat(a separator 'x''y') from t",
		"select `a\U00010041` from t", // identifier with a non-BMP letter (U+10041)
	} {
		tree, err := Parse(sql)
		if err != nil {
			t.Errorf("%q: %v", sql, err)
			continue
		}
		printed := String(tree)
		tree2, err := Parse(printed)
		if err != nil {
			t.Errorf("%q\n    prints as %q\n    which does not parse: %v", sql, printed, err)
			continue
		}
		if !reflect.DeepEqual(tree, tree2) {
			t.Errorf("%q\n    prints as %q\n    which parses to a different tree (prints as %q)", sql, printed, String(tree2))
		}
	}
}
