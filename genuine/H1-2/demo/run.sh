#!/bin/sh
# Finding 2: the csv/json printer (outputs/eager) ignores Record.Retraction and prints retractions as rows.
cd "$(dirname "$0")"
. ../../common.sh

cat > l.csv <<'X'
id,v
1,a
2,b
2,c
,d
4,e
X
cat > r.csv <<'X'
id,w
2,X
2,Y
3,Z
,N
1,Q
X
cat > t.csv <<'X'
a,b
1,x
2,y
1,x
,z
3,
,z
X

# (1) GROUP BY with a counting trigger: one row per key expected (the NoRetractions flag is correctly false here)
check "group by ... trigger counting 1, csv" "a,n
,2
1,2
2,1
3,1" "select a, count(*) as n from t.csv group by a trigger counting 1" -o csv
# the same query is right as soon as an ORDER BY routes it through OrderSensitiveTransform:
check "group by ... trigger counting 1 order by a, csv (control)" "a,n
,2
1,2
2,1
3,1" "select a, count(*) as n from t.csv group by a trigger counting 1 order by a" -o csv

# (2) RIGHT JOIN: 7 rows expected, each unmatched right row exactly once; compare as a sorted multiset; 10 repetitions
EXP=$(printf '%s\n' ",,,N" ",,3,Z" "1,a,1,Q" "2,b,2,X" "2,b,2,Y" "2,c,2,X" "2,c,2,Y")
i=0
while [ $i -lt 10 ]; do
  i=$((i+1))
  for fmt in csv; do
    got=$("$OCTOSQL" "select l.id, l.v, r.id as rid, r.w from l.csv l right join r.csv r on l.id = r.id" -o $fmt | tail -n +2 | sort)
    if [ "$got" != "$(echo "$EXP" | sort)" ]; then
      FAILED=1; echo "FAIL: run $i: right join -o $fmt printed $(echo "$got" | wc -l) rows instead of 7:"; echo "$got" | sed 's/^/    /'
    else echo "PASS: run $i: right join -o $fmt"; fi
  done
done
finish
