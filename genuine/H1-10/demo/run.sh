#!/bin/sh
# Finding 10: removing an unused column below a nested ORDER BY ... LIMIT changes which of the tied rows survive the LIMIT.
cd "$(dirname "$0")"
. ../../common.sh
cat > u.csv <<'X'
a,b,c
1,1,9
1,2,5
2,0,0
X
Q="select c from (select a, b, c from u.csv order by a limit 1) x"
A=$("$OCTOSQL" "$Q" -o csv --optimize=false | tr '\n' ' ')
B=$("$OCTOSQL" "$Q" -o csv | tr '\n' ' ')
echo "query                 : $Q"
echo "--optimize=false      : $A"
echo "default (optimized)   : $B"
if [ "$A" != "$B" ]; then FAILED=1; echo "FAIL: optimized and unoptimized plans return different rows"; fi
finish
