#!/bin/sh
# Usage: OCTOSQL_BIN=/path/to/octosql ./run.sh
export OCTOSQL_NO_TELEMETRY=1
BIN=${OCTOSQL_BIN:-octosql}
f() { grep -v '^  \|^$\|^Usage\|^Flags\|^Examples\|^Available\|^octosql "\|^Use "'; }
echo '== two elements (works): expected/observed {"a":true,"b":false,"c":true,"d":false}'
$BIN "select 1 in (1, 2) as a, 1 not in (1, 2) as b, (1, 2) in ((1, 2), (3, 4)) as c, (1, 2) not in ((1, 2), (3, 4)) as d" -o json 2>&1 | f
echo '== one element, tuple valued: expected {"c":true,"d":false}'
$BIN "select (1, 2) in ((1, 2)) as c, (1, 2) not in ((1, 2)) as d" -o json 2>&1 | f
echo '== one element, scalar: expected {"a":true,"b":false,"c":false}'
$BIN "select 1 in (1) as a, 1 not in (1) as b, 2 in (1) as c" -o json 2>&1 | f
