#!/bin/sh
# Finding 3: a CTE that is referenced twice gets the same unique column names for both references.
cd "$(dirname "$0")"
. ../../common.sh
cat > u.csv <<'X'
a,b,c
1,1,9
1,2,5
2,0,0
X
EXP="a,b,qa,qb
1,1,1,1
1,1,1,2
1,2,2,0"
# control: the same self join written with two inline subqueries
check "self join with inline subqueries (control)" "$EXP" \
  "select p.a, p.b, q.a as qa, q.b as qb from (select a, b, c from u.csv) p join (select a, b, c from u.csv) q on p.b = q.a order by a, b, qa, qb" -o csv
check "self join of a CTE" "$EXP" \
  "with x as (select a, b, c from u.csv) select p.a, p.b, q.a as qa, q.b as qb from (select * from x) p join (select * from x) q on p.b = q.a order by a, b, qa, qb" -o csv
check "self join of a CTE, --optimize=false" "$EXP" \
  "with x as (select a, b, c from u.csv) select p.a, p.b, q.a as qa, q.b as qb from (select * from x) p join (select * from x) q on p.b = q.a order by a, b, qa, qb" -o csv --optimize=false
finish
