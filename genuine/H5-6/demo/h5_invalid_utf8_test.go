package plugins

// Copy into plugins/internal/plugins/ and run:
//   go test -vet=off -count=1 -run TestH5InvalidUTF8 ./plugins/internal/plugins/

import (
	"context"
	"encoding/json"
	"testing"
	"time"

	"google.golang.org/protobuf/proto"

	"github.com/cube2222/octosql/execution"
	"github.com/cube2222/octosql/functions"
	"github.com/cube2222/octosql/logical"
	"github.com/cube2222/octosql/octosql"
	"github.com/cube2222/octosql/parser"
	"github.com/cube2222/octosql/parser/sqlparser"
	"github.com/cube2222/octosql/physical"
)

// A latin-1 encoded name, as found in many CSV exports: "Jos\xe9" ("José" in ISO-8859-1).
const latin1 = "Jos\xe9"

// Records (and execution variable contexts, e.g. the left side of a lookup join) with such a string
// cannot cross the plugin boundary at all.
func TestH5InvalidUTF8Record(t *testing.T) {
	rec := execution.NewRecord([]octosql.Value{octosql.NewString(latin1)}, false, time.Time{})
	data, err := proto.Marshal(NativeRecordToProto(rec))
	if err != nil {
		t.Fatalf("record with string %q cannot be encoded for the plugin wire: %v", latin1, err)
	}
	var back Record
	if err := proto.Unmarshal(data, &back); err != nil {
		t.Fatalf("unmarshal: %v", err)
	}
	if out := back.ToNativeRecord(); out.Values[0].Str != latin1 {
		t.Fatalf("string changed: %q -> %q", latin1, out.Values[0].Str)
	}
}

func TestH5InvalidUTF8VariableContext(t *testing.T) {
	c := &execution.VariableContext{Values: []octosql.Value{octosql.NewString(latin1)}}
	_, err := proto.Marshal(NativeExecutionVariableContextToProto(c))
	if err != nil {
		t.Fatalf("variable context with string %q cannot be encoded for the plugin wire: %v", latin1, err)
	}
}

// A pushed down predicate  name = 'Jos\xe9'  is silently changed to  name = 'Jos�'  by the JSON transport,
// so it evaluates differently on the plugin side.
func TestH5InvalidUTF8Predicate(t *testing.T) {
	stmt, err := sqlparser.Parse("select * from t where name = '" + latin1 + "'")
	if err != nil {
		t.Fatal(err)
	}
	logicalPredicate, err := parser.ParseExpression(stmt.(*sqlparser.Select).Where.Expr)
	if err != nil {
		t.Fatal(err)
	}
	schema := physical.NewSchema([]physical.SchemaField{{Name: "name", Type: octosql.String}}, -1)
	env := physical.Environment{Functions: functions.FunctionMap()}.WithRecordSchema(schema)
	predicate := logicalPredicate.Typecheck(context.Background(), env, logical.Environment{
		UniqueVariableNames: &logical.VariableMapping{Mapping: map[string]string{"name": "name"}},
		UniqueNameGenerator: map[string]int{},
	})

	// What plugins/executor.PhysicalDatasource.Materialize + plugins.physicalServer.Materialize do:
	data, err := json.Marshal([]physical.Expression{predicate})
	if err != nil {
		t.Fatal(err)
	}
	var received []physical.Expression
	if err := json.Unmarshal(data, &received); err != nil {
		t.Fatal(err)
	}
	pluginSide, ok := RepopulatePhysicalExpressionFunctions(received[0])
	if !ok {
		t.Fatal("predicate rejected")
	}

	eval := func(e physical.Expression) octosql.Value {
		exec, err := e.Materialize(context.Background(), env)
		if err != nil {
			t.Fatal(err)
		}
		rec := execution.NewRecord([]octosql.Value{octosql.NewString(latin1)}, false, time.Time{})
		v, err := exec.Evaluate(execution.ExecutionContext{Context: context.Background()}.WithRecord(rec))
		if err != nil {
			t.Fatal(err)
		}
		return v
	}
	native, plugin := eval(predicate), eval(pluginSide)
	t.Logf("constant natively: %q, on the plugin side: %q", predicate.FunctionCall.Arguments[1].Constant.Value.Str, pluginSide.FunctionCall.Arguments[1].Constant.Value.Str)
	if !native.Equal(plugin) {
		t.Fatalf("predicate on row name=%q evaluates to %s natively but to %s after the plugin transport", latin1, native, plugin)
	}
}
