#!/bin/sh
# usage: sh run.sh [path-to-octosql-binary]
# Build first:  cd /tmp/wt/H6 && GOFLAGS=-mod=mod GOPROXY=off GOSUMDB=off GOTOOLCHAIN=local go build -o _out/octosql .
OCTOSQL=${1:-/tmp/wt/H6/_out/octosql}
export OCTOSQL_NO_TELEMETRY=1
D=$(mktemp -d); cd "$D"
cat > t.json <<'J'
{"a": 1, "b": "x", "c": 1.5, "d": true}
{"a": 2, "b": "y", "c": null, "d": false}
J
echo "--- Q1: four columns under the same alias, -o json (expected 4 keys per object: x, x_1, x_2, x_3)"
"$OCTOSQL" "SELECT a AS x, b AS x, c AS x, d AS x FROM t.json" -o json 2>&1 | tail -3
echo "--- Q2: same, -o csv (expected header x,x_1,x_2,x_3)"
"$OCTOSQL" "SELECT a AS x, b AS x, c AS x, d AS x FROM t.json" -o csv 2>&1 | tail -3
echo "--- Q3: same column three times (expected header a,a_1,a_2)"
"$OCTOSQL" "SELECT a, a, a FROM t.json" -o csv 2>&1 | tail -3
echo "--- Q4: outer query reads x_1 of a subquery; x_1 must be column b ('x','y'), it is column c"
"$OCTOSQL" "SELECT q.x_1 FROM (SELECT a AS x, b AS x, c AS x FROM t.json) q" -o json 2>&1 | tail -3
rm -rf "$D"
