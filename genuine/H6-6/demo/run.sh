#!/bin/sh
# usage: sh run.sh [path-to-octosql-binary]
OCTOSQL=${1:-/tmp/wt/H6/_out/octosql}
export OCTOSQL_NO_TELEMETRY=1
D=$(mktemp -d); cd "$D"
printf 'k,g\n1,a\n2,b\n' > u.csv
run() { echo "== $1"; "$OCTOSQL" "$1" -o json 2>&1 | tail -3 | grep -v '^$' | grep -v 'octosql \[command\]'; }
echo "##### expected for Q1-Q4: {\"k\":1} {\"k\":2}"
run "WITH a AS (SELECT k FROM u.csv) SELECT a.k FROM a"
run "WITH a AS (SELECT k FROM u.csv) SELECT z.k FROM a z"
run "WITH a AS (SELECT k FROM u.csv) SELECT a.* FROM a"
run "WITH a AS (SELECT k FROM u.csv) SELECT z.* FROM a z"
echo "##### expected for Q5, Q6: error, the table u is not visible outside of the common table expression"
run "WITH a AS (SELECT k FROM u.csv) SELECT u.k FROM a"
run "WITH a AS (SELECT k FROM u.csv) SELECT u.* FROM a z"
echo "##### reference: the same with a subquery in FROM behaves as expected"
run "SELECT z.k FROM (SELECT k FROM u.csv) z"
run "SELECT z.* FROM (SELECT k FROM u.csv) z"
run "SELECT u.k FROM (SELECT k FROM u.csv) z"
echo "##### expected for Q7: two rows 1,1 and 2,2 (aliases x and y tell the two references apart)"
run "WITH a AS (SELECT k FROM u.csv) SELECT x.k, y.k FROM a x JOIN a y ON x.k = y.k"
rm -rf "$D"
