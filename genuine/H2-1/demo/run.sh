#!/bin/bash
# Finding 1: LEFT JOIN + ORDER BY + LIMIT with the (default) table output dies with a Go panic.
cd "$(dirname "$0")"
. ../../common/build.sh
Q="SELECT a.id, b.rid FROM l5.json a LEFT JOIN r5.json b ON a.id = b.rid ORDER BY a.id LIMIT 1"
echo "### query: $Q   (-o batch_table)"
$OCTOSQL "$Q" -o batch_table
echo "exit status: $?"
echo
echo "### same query with the default output format (live_table)"
$OCTOSQL "$Q" 2>&1 | grep -a -m3 -E "panic|goroutine"
echo
echo "### reference: same query with -o json (no crash, expected row is id=1,rid=1)"
$OCTOSQL "$Q" -o json
echo
echo "### secondary symptom (silent wrong result, -o json): LIMIT 2 vs. the full ordered output"
Q2="SELECT a.id, b.rid FROM l5.json a LEFT JOIN r2.json b ON a.id = b.rid ORDER BY b.rid, a.id"
$OCTOSQL "$Q2 LIMIT 2" -o json; echo "exit status: $?"
echo "--- full output:"
$OCTOSQL "$Q2" -o json
