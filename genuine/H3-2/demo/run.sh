#!/bin/sh
# Usage: OCTOSQL_BIN=/path/to/octosql ./run.sh
cd "$(dirname "$0")"
export OCTOSQL_NO_TELEMETRY=1
BIN=${OCTOSQL_BIN:-octosql}
echo '== primitive column: works as intended (row 1: 1, row 2: error "panic: n is null")'
$BIN "select id, coalesce(n, panic('n is null')) as c from ./o.json" -o json 2>&1 | grep -v '^  \|^$\|^Usage\|^Flags\|^Examples\|^Available\|^octosql "\|^Use "'
echo '== object column, expected {"id":1,"c":{"a":1,"b":"x"}} then the error "panic: o is null"'
$BIN "select id, coalesce(o, panic('o is null')) as c from ./o.json" -o json 2>&1 | head -8
echo '== list column, expected {"id":1,"c":[1,2]} then the error "panic: l is null"'
$BIN "select id, coalesce(l, panic('l is null')) as c from ./o.json" -o json 2>&1 | head -8
