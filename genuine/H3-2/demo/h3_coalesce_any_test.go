package execution

// Copy into <repo>/execution/ and run:
//   go test -vet=off -count=1 -run TestH3CoalesceAny ./execution/

import (
	"context"
	"testing"

	"github.com/cube2222/octosql/octosql"
)

// COALESCE(o, panic('o is null')) - o: {a: Int} | NULL, panic(...): Any.
// logical.Coalesce.Typecheck computes the output type TypeSum({a: Int} | NULL, Any) = Any and
// physical.Expression.Materialize builds NewObjectLayoutFixer(Any, [{a: Int} | NULL, Any]).
func TestH3CoalesceAny(t *testing.T) {
	object := octosql.Type{TypeID: octosql.TypeIDStruct, Struct: struct{ Fields []octosql.StructField }{
		Fields: []octosql.StructField{{Name: "a", Type: octosql.Int}},
	}}
	argTypes := []octosql.Type{octosql.TypeSum(object, octosql.Null), octosql.Any}
	target := octosql.TypeSum(argTypes[0], argTypes[1])
	if target.TypeID != octosql.TypeIDAny {
		t.Fatalf("unexpected target type %s", target)
	}

	for name, first := range map[string]octosql.Value{
		"object": octosql.NewStruct([]octosql.Value{octosql.NewInt(42)}),
		"list":   octosql.NewList([]octosql.Value{octosql.NewInt(42)}),
		"tuple":  octosql.NewTuple([]octosql.Value{octosql.NewInt(42)}),
	} {
		t.Run(name, func(t *testing.T) {
			defer func() {
				if r := recover(); r != nil {
					t.Fatalf("COALESCE(<non-NULL %s>, <Any>) panicked instead of returning its first argument: %v", name, r)
				}
			}()
			c := NewCoalesce(
				[]Expression{NewConstant(first), NewConstant(octosql.NewNull())},
				NewObjectLayoutFixer(target, argTypes),
			)
			got, err := c.Evaluate(ExecutionContext{Context: context.Background()})
			if err != nil {
				t.Fatal(err)
			}
			if got.Compare(first) != 0 {
				t.Fatalf("got %v, want %v", got, first)
			}
		})
	}
}
