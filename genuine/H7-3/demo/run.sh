#!/bin/bash
# Finding 3 demo. Usage: bash run.sh   (set OCTOSQL=/path/to/octosql to use another binary)
O=${OCTOSQL:-/tmp/wt/H7/_out/octosql}
export HOME=$(mktemp -d) OCTOSQL_NO_TELEMETRY=1
D=$(mktemp -d); cd $D
flt() { grep -v '^  \|^$\|^Usage\|^Examples\|^Flags\|^Available\|^octosql \|^Use \|^goroutine\|^	\|^github.com\|^main\.\|^runtime\.\|^created by'; }
run() { echo "\$ octosql \"$Q\" $*"; $O "$Q" "$@" 2>&1 | flt; echo; }
printf 'id,k,v\n1,1,x\n2,2,y\n3,,z\n4,2,w\n5,7,q\n' > a.csv
printf 'id,k,name\n10,1,one\n11,2,two\n12,,nul\n13,2,deux\n14,9,nine\n' > b.csv
S="(SELECT a.k as k, count(*) as c FROM a.csv a GROUP BY a.k TRIGGER COUNTING 1) s"
J="(SELECT count(*) as n FROM b.csv b WHERE b.k = s.k TRIGGER COUNTING 1) j"
echo "### reference: same query with the default (end of stream) triggers"
Q="SELECT s.k, s.c, j.n FROM (SELECT a.k as k, count(*) as c FROM a.csv a GROUP BY a.k) s LOOKUP JOIN (SELECT count(*) as n FROM b.csv b WHERE b.k = s.k) j"; run -o csv
echo "### changelog of the lookup join with early firing triggers on both sides (row 5 retracts 2,1,1 which was already retracted in row 3)"
Q="SELECT s.k, s.c, j.n FROM $S LOOKUP JOIN $J"; run -o stream_native
echo "### csv output: a row that should not exist (2,1,1)"
run -o csv
echo "### table output: panic"
run -o batch_table
