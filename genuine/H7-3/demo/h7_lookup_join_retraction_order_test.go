package nodes

// Copy into execution/nodes/ and run:
//   go test -vet=off -count=1 -run TestH7LookupJoinRetractedSourceRecord ./execution/nodes/

import (
	"context"
	"testing"
	"time"

	. "github.com/cube2222/octosql/execution"
	"github.com/cube2222/octosql/octosql"
)

type h7Changelog struct{ records []Record }

func (s *h7Changelog) Run(ctx ExecutionContext, produce ProduceFn, metaSend MetaSendFn) error {
	for _, r := range s.records {
		if err := produce(ProduceFromExecutionContext(ctx), r); err != nil {
			return err
		}
	}
	return nil
}

func TestH7LookupJoinRetractedSourceRecord(t *testing.T) {
	rec := func(retraction bool, values ...int64) Record {
		out := make([]octosql.Value, len(values))
		for i := range values {
			out[i] = octosql.NewInt(values[i])
		}
		return NewRecord(out, retraction, time.Time{})
	}
	// Valid changelog of the source: a row is added and later retracted.
	source := &h7Changelog{records: []Record{rec(false, 7), rec(true, 7)}}
	// Valid changelog of the joined side (e.g. a count with TRIGGER COUNTING 1): +1, -1, +2. Consolidated: {2}.
	joined := &h7Changelog{records: []Record{rec(false, 1), rec(true, 1), rec(false, 2)}}

	present := map[[2]int64]int{}
	err := NewLookupJoin(source, joined).Run(ExecutionContext{Context: context.Background()}, func(ctx ProduceContext, record Record) error {
		key := [2]int64{record.Values[0].Int, record.Values[1].Int}
		if record.Retraction {
			present[key]--
			if present[key] < 0 {
				t.Errorf("lookup join retracts row %v which is not present", key)
			}
		} else {
			present[key]++
		}
		return nil
	}, func(ctx ProduceContext, msg MetadataMessage) error { return nil })
	if err != nil {
		t.Fatal(err)
	}
}
