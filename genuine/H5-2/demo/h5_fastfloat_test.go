package csv

// Copy into datasources/csv/ and run:  go test -vet=off -count=1 -run TestH5FastFloat ./datasources/csv/
// Shows that the per-cell parser used at execution (fastfloat.Parse) disagrees with the
// correctly rounded value that the schema inference (strconv.ParseFloat) saw for the same text.

import (
	"fmt"
	"math/rand"
	"strconv"
	"testing"

	"github.com/valyala/fastjson/fastfloat"
)

func TestH5FastFloat(t *testing.T) {
	r := rand.New(rand.NewSource(1))
	bad, n := 0, 200000
	for i := 0; i < n; i++ {
		s := fmt.Sprintf("%d.%de%d", r.Intn(100), r.Intn(1000), r.Intn(40)-20)
		got, err1 := fastfloat.Parse(s)
		want, err2 := strconv.ParseFloat(s, 64)
		if err1 != nil || err2 != nil || got != want {
			if bad < 10 {
				t.Errorf("cell %q: execution parses %v, exact value is %v", s, got, want)
			}
			bad++
		}
	}
	t.Logf("%d of %d random cells of the form D.DDDeN are read inexactly", bad, n)
}
