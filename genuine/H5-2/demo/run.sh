#!/bin/sh
# Usage: sh run.sh            (builds the CLI from the worktree into _out/octosql if needed, ~1 minute)
#    or: OCTOSQL=/path/to/octosql sh run.sh
O=${OCTOSQL:-$(cd "$(dirname "$0")/../.." && pwd)/octosql}
if [ ! -x "$O" ]; then
  (cd "$(dirname "$0")/../../.." && GOFLAGS=-mod=mod GOPROXY=off GOSUMDB=off GOTOOLCHAIN=local go build -o "$O" .) || exit 1
fi
export OCTOSQL_NO_TELEMETRY=1
cd "$(dirname "$0")"
echo "--- csv"
$O "select a, a = 6.5162 as is_6_5162, a = 6671000.0 as is_6671000, a = 0.0000019981 as is_small from ./floats.csv" -o json
echo "--- json"
$O "select a from ./floats.json" -o csv
echo "--- octosql cannot re-read its own -o json output: plain.csv holds 1000 plain decimals (read exactly)"
$O "select id, x from ./plain.csv" -o json > ./plain_out.json
head -2 ./plain_out.json
$O "select count(*) as changed from ./plain.csv c join ./plain_out.json j on c.id = int(j.id) where c.x != j.x" -o json
$O "select c.id, c.x as csv_x, j.x as json_x from ./plain.csv c join ./plain_out.json j on c.id = int(j.id) where c.x != j.x limit 3" -o json
rm -f ./plain_out.json
