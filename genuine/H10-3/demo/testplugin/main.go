// Test plugin: serves one in-memory table "t" (columns id Int, s String), pushes every predicate down
// and evaluates the pushed-down predicates itself, the way database plugins do.
// The table name is prefixed with the plugin's own name (env TESTPLUGIN_NAME or binary name), so that it is visible which plugin answered.
package main

import (
	"context"
	"fmt"
	"os"
	"path/filepath"
	"strings"
	"time"

	"github.com/cube2222/octosql/execution"
	"github.com/cube2222/octosql/execution/nodes"
	"github.com/cube2222/octosql/octosql"
	"github.com/cube2222/octosql/physical"
	"github.com/cube2222/octosql/plugins"
)

var self = strings.TrimPrefix(filepath.Base(os.Args[0]), "octosql-plugin-")

var rows = [][]octosql.Value{
	{octosql.NewInt(1), octosql.NewString("plain")},
	{octosql.NewInt(2), octosql.NewString("bad\xffbyte")},
	{octosql.NewInt(3), octosql.NewString("bad�byte")},
	{octosql.NewInt(4), octosql.NewString("served by plugin " + self)},
	{octosql.NewInt(-5), octosql.NewString("")},
	{octosql.NewInt(9007199254740993), octosql.NewString("Zażółć gęślą jaźń")},
	{octosql.NewInt(-9223372036854775808), octosql.NewString("a%b_c")},
}

type db struct{}

func (db) ListTables(ctx context.Context) ([]string, error) { return []string{"t"}, nil }

func (db) GetTable(ctx context.Context, name string, options map[string]string) (physical.DatasourceImplementation, physical.Schema, error) {
	return impl{}, physical.NewSchema([]physical.SchemaField{
		{Name: "id", Type: octosql.Int},
		{Name: "s", Type: octosql.String},
	}, -1, physical.WithNoRetractions(true)), nil
}

type impl struct{}

func (impl) PushDownPredicates(newPredicates, pushedDownPredicates []physical.Expression) (rejected, pushedDown []physical.Expression, changed bool) {
	return nil, append(append([]physical.Expression{}, pushedDownPredicates...), newPredicates...), len(newPredicates) > 0
}

func (impl) Materialize(ctx context.Context, env physical.Environment, schema physical.Schema, pushedDownPredicates []physical.Expression) (execution.Node, error) {
	full := physical.NewSchema([]physical.SchemaField{
		{Name: "id", Type: octosql.Int},
		{Name: "s", Type: octosql.String},
	}, -1)
	var node execution.Node = &source{}
	for i := range pushedDownPredicates {
		// Qualified names (t.id) arrive unqualified or qualified depending on the alias, match by suffix.
		e := stripQualifiers(pushedDownPredicates[i])
		pred, err := e.Materialize(ctx, env.WithRecordSchema(full))
		if err != nil {
			return nil, err
		}
		node = nodes.NewFilter(node, pred)
	}
	// project to the requested schema
	idx := make([]int, len(schema.Fields))
	for i, f := range schema.Fields {
		n := f.Name
		if j := strings.LastIndex(n, "."); j >= 0 {
			n = n[j+1:]
		}
		switch n {
		case "id":
			idx[i] = 0
		case "s":
			idx[i] = 1
		default:
			return nil, fmt.Errorf("unknown field %s", f.Name)
		}
	}
	return &project{src: node, idx: idx}, nil
}

func stripQualifiers(e physical.Expression) physical.Expression {
	return (&physical.Transformers{ExpressionTransformer: func(e physical.Expression) physical.Expression {
		if e.ExpressionType == physical.ExpressionTypeVariable {
			n := e.Variable.Name
			if j := strings.LastIndex(n, "."); j >= 0 {
				v := *e.Variable
				v.Name = n[j+1:]
				e.Variable = &v
			}
		}
		return e
	}}).TransformExpr(e)
}

type source struct{}

func (*source) Run(ctx execution.ExecutionContext, produce execution.ProduceFn, metaSend execution.MetaSendFn) error {
	for _, r := range rows {
		if os.Getenv("TESTPLUGIN_NO_INVALID") != "" && r[0].Int == 2 {
			continue
		}
		if err := produce(execution.ProduceFromExecutionContext(ctx), execution.NewRecord(r, false, time.Time{})); err != nil {
			return err
		}
	}
	return nil
}

type project struct {
	src execution.Node
	idx []int
}

func (p *project) Run(ctx execution.ExecutionContext, produce execution.ProduceFn, metaSend execution.MetaSendFn) error {
	return p.src.Run(ctx, func(pctx execution.ProduceContext, r execution.Record) error {
		vals := make([]octosql.Value, len(p.idx))
		for i, j := range p.idx {
			vals[i] = r.Values[j]
		}
		return produce(pctx, execution.NewRecord(vals, r.Retraction, r.EventTime))
	}, metaSend)
}

func main() {
	plugins.Run(func(ctx context.Context, configDecoder plugins.ConfigDecoder) (physical.Database, error) {
		return db{}, nil
	})
}
