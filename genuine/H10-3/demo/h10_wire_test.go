package plugins

// Copy into plugins/internal/plugins/ and run:
//   go test -vet=off -count=1 -run 'TestH10' -v ./plugins/internal/plugins/

import (
	"encoding/json"
	"testing"

	"google.golang.org/protobuf/proto"

	"github.com/cube2222/octosql/execution"
	"github.com/cube2222/octosql/octosql"
	"github.com/cube2222/octosql/physical"
)

// A String value is any byte sequence natively (csv/json/lines sources produce such values from files),
// but the wire message declares `string str = 5`, which protobuf refuses to encode unless it is valid UTF-8.
func TestH10InvalidUTF8ValueOverWire(t *testing.T) {
	in := execution.NewRecord([]octosql.Value{octosql.NewInt(2), octosql.NewString("bad\xffbyte")}, false, octosql.ZeroValue.Time)
	data, err := proto.Marshal(NativeRecordToProto(in))
	if err != nil {
		t.Fatalf("record %v can't be encoded: %v", in.Values, err)
	}
	var out Record
	if err := proto.Unmarshal(data, &out); err != nil {
		t.Fatalf("record can't be decoded: %v", err)
	}
	if got := out.ToNativeRecord().Values[1].Str; got != in.Values[1].Str {
		t.Fatalf("got %q, want %q", got, in.Values[1].Str)
	}
}

// Predicates are sent to the plugin (and received back from it) as encoding/json documents.
// encoding/json replaces invalid UTF-8 in strings by U+FFFD, so the constant changes.
func TestH10InvalidUTF8ConstantInPredicate(t *testing.T) {
	in := []physical.Expression{{
		Type:           octosql.String,
		ExpressionType: physical.ExpressionTypeConstant,
		Constant:       &physical.Constant{Value: octosql.NewString("bad\xffbyte")},
	}}
	data, err := json.Marshal(&in)
	if err != nil {
		t.Fatal(err)
	}
	var out []physical.Expression
	if err := json.Unmarshal(data, &out); err != nil {
		t.Fatal(err)
	}
	if got, want := out[0].Constant.Value.Str, in[0].Constant.Value.Str; got != want {
		t.Fatalf("constant changed in transport: got %q, want %q", got, want)
	}
}
