#!/bin/sh
# usage: sh run.sh   (WT = octosql work tree)
WT=${WT:-/tmp/wt/H10}
HERE=$(cd $(dirname $0) && pwd)
export GOFLAGS=-mod=mod GOPROXY=off GOSUMDB=off GOTOOLCHAIN=local OCTOSQL_NO_TELEMETRY=1
[ -x $WT/_out/octosql ] || (cd $WT && go build -o $WT/_out/octosql .)
mkdir -p $WT/_h10_testplugin && cp $HERE/testplugin/main.go $WT/_h10_testplugin/main.go
D=$(mktemp -d)
(cd $WT && go build -o $D/testplugin ./_h10_testplugin) || exit 1
rm -rf $WT/_h10_testplugin
export GOPATH=$(go env GOPATH) GOCACHE=$(go env GOCACHE) GOMODCACHE=$(go env GOMODCACHE)
export HOME=$D/home XDG_CONFIG_HOME=$D/home/.config XDG_DATA_HOME=$D/home/.local XDG_CACHE_HOME=$D/home/.cache
mkdir -p $HOME/.octosql/plugins/core/octosql-plugin-alpha/0.1.0
cp $D/testplugin $HOME/.octosql/plugins/core/octosql-plugin-alpha/0.1.0/octosql-plugin-alpha
cd $D
# the same data as the plugin's table t (first three rows), as a native csv file
printf 'id,s\n1,plain\n2,bad\377byte\n3,bad\357\277\275byte\n' > native.csv
B=$WT/_out/octosql
echo "=== (a) a String value that is not valid UTF-8"
echo "--- native:  SELECT id, s FROM native.csv WHERE id < 4 -o csv | od -c"
$B "SELECT id, s FROM native.csv WHERE id < 4" -o csv 2>&1 | tail -4 | od -c | head -8
echo "--- plugin:  SELECT id, s FROM alpha.t WHERE id < 4"
$B "SELECT id, s FROM alpha.t WHERE id < 4" -o csv 2>&1 | tail -2
echo
echo "=== (b) a pushed down predicate with a constant that is not valid UTF-8:  WHERE s = 'bad<0xFF>byte'"
Q1=$(printf "SELECT id FROM native.csv WHERE s = 'bad\377byte'")
Q2=$(printf "SELECT id FROM alpha.t WHERE s = 'bad\377byte'")
echo "--- native:"; $B "$Q1" -o json 2>&1 | tail -2
echo "--- plugin (row 2 has exactly these bytes, row 3 has U+FFFD instead of 0xFF):"; $B "$Q2" -o json 2>&1 | tail -2
echo
echo "=== unit tests of the two encodings"
cp $HERE/h10_wire_test.go $WT/plugins/internal/plugins/h10_wire_test.go
(cd $WT && go test -vet=off -count=1 -run TestH10 -v ./plugins/internal/plugins/ 2>&1 | tail -9)
rm -f $WT/plugins/internal/plugins/h10_wire_test.go
rm -rf $D
