package logical_test

// Copy into <repo>/logical/ and run:
//   go test -vet=off -count=1 -run TestH3OverloadMaybe ./logical/

import (
	"context"
	"testing"

	"github.com/cube2222/octosql/execution"
	"github.com/cube2222/octosql/functions"
	"github.com/cube2222/octosql/logical"
	"github.com/cube2222/octosql/octosql"
	"github.com/cube2222/octosql/physical"
)

func typecheck(t *testing.T, expr logical.Expression) (out physical.Expression, panicked interface{}) {
	defer func() { panicked = recover() }()
	env := physical.Environment{Functions: functions.FunctionMap()}
	out = expr.Typecheck(context.Background(), env, logical.Environment{})
	return
}

// abs(COALESCE(1, 2.5)): the argument has the static type Int | Float, both abs overloads "maybe" fit.
// Expected: typechecks (to the first maybe-fitting overload, as the comment on int() promises, or any one
// overload) and evaluates to 1.
func TestH3OverloadMaybe_NonNullableUnion(t *testing.T) {
	arg := logical.NewCoalesce([]logical.Expression{
		logical.NewConstant(octosql.NewInt(1)),
		logical.NewConstant(octosql.NewFloat(2.5)),
	})
	_, p := typecheck(t, logical.NewFunctionExpression("abs", []logical.Expression{arg}))
	if p != nil {
		t.Fatalf("abs(Int | Float) typecheck panicked: %v", p)
	}
}

// abs(COALESCE(NULL, -1, 2.5)): argument type NULL | Int | Float. Typecheck succeeds, but the argument gets
// wrapped in BOTH assertions (NULL | Int) and (NULL | Float), so every non-NULL value fails at run time.
func TestH3OverloadMaybe_NullableUnion(t *testing.T) {
	arg := logical.NewCoalesce([]logical.Expression{
		logical.NewConstant(octosql.NewNull()),
		logical.NewConstant(octosql.NewInt(-1)),
		logical.NewConstant(octosql.NewFloat(2.5)),
	})
	expr, p := typecheck(t, logical.NewFunctionExpression("abs", []logical.Expression{arg}))
	if p != nil {
		t.Fatalf("typecheck panicked: %v", p)
	}
	t.Logf("static type of abs(...): %s; argument expression type: %s", expr.Type, expr.FunctionCall.Arguments[0].Type)
	execExpr, err := expr.Materialize(context.Background(), physical.Environment{Functions: functions.FunctionMap()})
	if err != nil {
		t.Fatal(err)
	}
	value, err := execExpr.Evaluate(execution.ExecutionContext{Context: context.Background()})
	if err != nil {
		t.Fatalf("abs(COALESCE(NULL, -1, 2.5)) should be 1, got error: %v", err)
	}
	if value.TypeID != octosql.TypeIDInt || value.Int != 1 {
		t.Fatalf("abs(COALESCE(NULL, -1, 2.5)) should be 1, got %v", value)
	}
}
