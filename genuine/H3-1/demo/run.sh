#!/bin/sh
# Usage: OCTOSQL_BIN=/path/to/octosql ./run.sh   (build with: go build -o /tmp/octosql . in the repo root)
cd "$(dirname "$0")"
export OCTOSQL_NO_TELEMETRY=1
BIN=${OCTOSQL_BIN:-octosql}
f() { grep -v '^  \|^$\|^Usage\|^Flags\|^Examples\|^Available\|^octosql "\|^Use "'; }
echo '== 1. abs(coalesce(x, 0)), x: NULL | Float  (expected: 1.5 and 0)'
$BIN "select id, abs(coalesce(x, 0)) as a from ./nullable.json" -o json 2>&1 | f
echo '== 2. float(x), x: Float | String  (expected: -1.5 and 7)'
$BIN "select id, float(x) as a from ./mixed.json" -o json 2>&1 | f
echo '== 3. int(x), x: NULL | Float | String (expected: 1, 12, null)'
$BIN "select x, int(x) as i from ./mixed_nullable.json" -o json 2>&1 | f
echo '== 4. no input file needed: select abs(coalesce(1, 2.5)) (expected: 1)'
$BIN "select abs(coalesce(1, 2.5)) as a" -o json 2>&1 | f
