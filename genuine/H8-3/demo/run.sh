#!/bin/bash
# Usage: ./run.sh [path to octosql binary]   (default /tmp/wt/H8/_out/octosql)
BIN=${1:-/tmp/wt/H8/_out/octosql}
export OCTOSQL_NO_TELEMETRY=1
cd "$(dirname "$0")"
for o in live_table batch_table stream_native json csv; do
  $BIN -o $o "SELECT a, b FROM t.json" > /dev/full 2> err.txt
  echo "-o $o > /dev/full : exit code $? ; stderr: $(grep '^Error' err.txt)"
done
rm -f err.txt
# --describe goes through the same printers
$BIN --describe "SELECT a, b FROM t.json" > /dev/full 2> err.txt
echo "--describe (live_table) > /dev/full : exit code $? ; stderr: $(grep '^Error' err.txt)"
rm -f err.txt
