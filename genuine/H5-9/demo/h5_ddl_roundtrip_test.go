package sqlparser

// Copy into parser/sqlparser/ and run:
//   go test -vet=off -count=1 -run TestH5DDLRoundTrip ./parser/sqlparser/

import (
	"reflect"
	"testing"
)

func TestH5DDLRoundTrip(t *testing.T) {
	for _, sql := range []string{
		"create index i on t (a)",
		"create unique index i on t (a)",
		"alter table t add column b int",
		"alter table t drop column b",
		"alter ignore table t add b int",
		"alter view v as select 1",
		"alter table t partition by hash (a)",
		"drop index i on t",
		"analyze table t",
	} {
		tree, err := Parse(sql)
		if err != nil {
			t.Errorf("%q: %v", sql, err)
			continue
		}
		printed := String(tree)
		tree2, err := Parse(printed)
		if err != nil {
			t.Errorf("%q prints as %q which does not parse: %v", sql, printed, err)
			continue
		}
		if !reflect.DeepEqual(tree, tree2) {
			t.Errorf("%q prints as %q which parses to a different tree", sql, printed)
		}
	}
}
