#!/bin/sh
OCTOSQL=${OCTOSQL:-/tmp/wt/H9/_out/octosql}
A=$(printf '\377\376')   # bytes ff fe
B=$(printf '\376\377')   # bytes fe ff
C=$(printf '\303')       # byte c3 (a truncated 2-byte sequence)
R=$(printf '\357\277\275') # U+FFFD, a valid 3-byte rune
echo "--- two different 2-byte strings: '=' says different, LIKE without any wildcard says they match"
$OCTOSQL "SELECT '$A' = '$B' as eq, '$A' LIKE '$B' as lk, '$C' LIKE '$(printf '\377')' as lk2, 'x${C}y' LIKE 'x${R}y' as lk3, '$R' LIKE '$C' as lk4, len('$A') as l" -o json
echo "--- a filter that should keep nothing"
printf 'v\nab\n' > /tmp/h9_like.csv
$OCTOSQL "SELECT count(*) as matches FROM /tmp/h9_like.csv WHERE '$A' LIKE '$B'" -o json
echo "--- upper/lower/reverse rewrite the invalid byte into the 3-byte U+FFFD (len 2 -> 4), reverse(reverse(s)) != s"
$OCTOSQL "SELECT len('${C}a') as len_in, len(upper('${C}a')) as len_upper, len(lower('${C}A')) as len_lower, len(reverse('${C}a')) as len_reverse, reverse(reverse('${C}a')) = '${C}a' as rr_eq, upper('${C}a') = '${C}A' as upper_ok" -o json
