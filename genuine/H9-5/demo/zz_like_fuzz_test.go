package functions

import (
	"math/rand"
	"testing"
	"unicode/utf8"

	"github.com/cube2222/octosql/octosql"
)

// reference LIKE on runes (invalid bytes are individual "characters")
func chars(s string) []string {
	var out []string
	for len(s) > 0 {
		_, n := utf8.DecodeRuneInString(s)
		out = append(out, s[:n])
		s = s[n:]
	}
	return out
}

type tok struct {
	kind int // 0 literal, 1 any, 2 all
	lit  string
}

func parsePat(p string) ([]tok, bool) {
	cs := chars(p)
	var out []tok
	for i := 0; i < len(cs); i++ {
		switch cs[i] {
		case "\\":
			if i+1 >= len(cs) {
				return nil, false
			}
			n := cs[i+1]
			if n != "_" && n != "%" && n != "\\" {
				return nil, false
			}
			out = append(out, tok{0, n})
			i++
		case "_":
			out = append(out, tok{1, ""})
		case "%":
			out = append(out, tok{2, ""})
		default:
			out = append(out, tok{0, cs[i]})
		}
	}
	return out, true
}

func match(ts []tok, s []string) bool {
	if len(ts) == 0 {
		return len(s) == 0
	}
	switch ts[0].kind {
	case 0:
		return len(s) > 0 && s[0] == ts[0].lit && match(ts[1:], s[1:])
	case 1:
		return len(s) > 0 && match(ts[1:], s[1:])
	default:
		for i := 0; i <= len(s); i++ {
			if match(ts[1:], s[i:]) {
				return true
			}
		}
		return false
	}
}

// copy into functions/ and run: go test -vet=off -count=1 -run TestLikeFuzz ./functions/
// (without the first four alphabet entries - the invalid bytes and U+FFFD - the test passes)
func TestLikeFuzz(t *testing.T) {
	like := FunctionMap()["like"].Descriptors[0].Function
	alphabet := []string{"\xff", "\xfe", "\xc3", "\uFFFD", "a", "b", "A", "_", "%", "\\", ".", "*", "+", "?", "(", ")", "[", "]", "{", "}", "^", "$", "|", "\n", "\r", "é", "ß", "日", "-", "/", " ", "#", "\x00", " ", "İ", "K", "k", "K"}
	rnd := rand.New(rand.NewSource(1))
	gen := func(n int) string {
		s := ""
		for i := 0; i < rnd.Intn(n); i++ {
			s += alphabet[rnd.Intn(len(alphabet))]
		}
		return s
	}
	bad := 0
	for i := 0; i < 300000 && bad < 15; i++ {
		s, p := gen(5), gen(5)
		ts, ok := parsePat(p)
		got, err := like([]octosql.Value{octosql.NewString(s), octosql.NewString(p)})
		if !ok {
			if err == nil {
				t.Errorf("pattern %q invalid but accepted", p)
				bad++
			}
			continue
		}
		if err != nil {
			t.Errorf("pattern %q rejected: %v", p, err)
			bad++
			continue
		}
		want := match(ts, chars(s))
		if got.Boolean != want {
			t.Errorf("%q LIKE %q = %v want %v", s, p, got.Boolean, want)
			bad++
		}
	}
}
