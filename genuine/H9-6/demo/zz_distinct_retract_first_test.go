package aggregates

import (
	"context"
	"fmt"
	"testing"
	"time"

	"github.com/cube2222/octosql/execution"
	"github.com/cube2222/octosql/execution/nodes"
	"github.com/cube2222/octosql/octosql"
)

// copy into aggregates/ and run:
//   go test -vet=off -count=1 -v -run 'TestDistinctRetractionBeforeAddition|TestGroupByRetractionBeforeAddition' ./aggregates/

type step struct {
	retraction bool
	v          int64
}

func runAggregate(name string, history []step) (out string) {
	defer func() {
		if r := recover(); r != nil {
			out = fmt.Sprintf("PANIC: %v", r)
		}
	}()
	agg := Aggregates[name].Descriptors[0].Prototype() // [0] is the Int overload
	for _, s := range history {
		agg.Add(s.retraction, octosql.NewInt(s.v))
	}
	return agg.Trigger().String()
}

// C14: every interleaving of additions and retractions with a non-empty net multiset M reports the aggregate of M.
// Here M = {7}: the retraction of 5 arrives before the addition it cancels.
func TestDistinctRetractionBeforeAddition(t *testing.T) {
	history := []step{{true, 5}, {false, 5}, {false, 7}}
	want := map[string]string{
		"count": "1", "count_distinct": "1", "sum": "7", "sum_distinct": "7", "avg": "7", "avg_distinct": "7",
		"array_agg": "[7]", "array_agg_distinct": "[7]", "min": "7", "max": "7",
	}
	for _, name := range []string{"count", "count_distinct", "sum", "sum_distinct", "avg", "avg_distinct", "array_agg", "array_agg_distinct", "min", "max"} {
		got := runAggregate(name, history)
		if got != want[name] {
			t.Errorf("%-18s over -5 +5 +7 (net {7}) = %s, want %s", name, got, want[name])
		} else {
			t.Logf("%-18s over -5 +5 +7 (net {7}) = %s", name, got)
		}
	}
}

type recordsNode struct{ records []execution.Record }

func (s *recordsNode) Run(ctx execution.ExecutionContext, produce execution.ProduceFn, metaSend execution.MetaSendFn) error {
	for _, r := range s.records {
		if err := produce(execution.ProduceFromExecutionContext(ctx), r); err != nil {
			return err
		}
	}
	return nil
}

// The group by nodes have the same weakness one level up: they drop a group's aggregates when the record count returns
// to zero, even if the records seen so far do not cancel (-5 +7 is not empty). Net multiset of the history is {7}.
func TestGroupByRetractionBeforeAddition(t *testing.T) {
	rec := func(retraction bool, v int64) execution.Record {
		return execution.NewRecord([]octosql.Value{octosql.NewString("k"), octosql.NewInt(v)}, retraction, time.Time{})
	}
	history := []execution.Record{rec(true, 5), rec(false, 7), rec(false, 5)}
	protos := []func() nodes.Aggregate{Aggregates["sum"].Descriptors[0].Prototype, Aggregates["min"].Descriptors[0].Prototype, Aggregates["count"].Descriptors[0].Prototype}
	exprs := []execution.Expression{execution.NewVariable(0, 1), execution.NewVariable(0, 1), execution.NewVariable(0, 1)}
	key := []execution.Expression{execution.NewVariable(0, 0)}

	for name, node := range map[string]execution.Node{
		"SimpleGroupBy":        nodes.NewSimpleGroupBy(protos, exprs, key, &recordsNode{history}),
		"CustomTriggerGroupBy": nodes.NewCustomTriggerGroupBy(protos, exprs, key, -1, &recordsNode{history}, execution.NewEndOfStreamTriggerPrototype()),
	} {
		var out []execution.Record
		if err := node.Run(execution.ExecutionContext{Context: context.Background()},
			func(ctx execution.ProduceContext, record execution.Record) error { out = append(out, record); return nil },
			func(ctx execution.ProduceContext, msg execution.MetadataMessage) error { return nil }); err != nil {
			t.Fatal(err)
		}
		if len(out) != 1 || out[0].Values[1].Int != 7 || out[0].Values[2].Int != 7 || out[0].Values[3].Int != 1 {
			t.Errorf("%s over -5 +7 +5 (net {7}): got %v, want [k, sum 7, min 7, count 1]", name, out)
		}
	}
}
