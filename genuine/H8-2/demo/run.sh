#!/bin/bash
# Usage: ./run.sh [path to octosql binary]   (default /tmp/wt/H8/_out/octosql)
BIN=${1:-/tmp/wt/H8/_out/octosql}
export OCTOSQL_NO_TELEMETRY=1
cd "$(dirname "$0")"
W="WITH w AS (SELECT * FROM max_diff_watermark(source=>TABLE(ev3.json), max_diff=>INTERVAL 5 SECONDS, time_field=>DESCRIPTOR(ts)) e),
        tu AS (SELECT * FROM tumble(source=>TABLE(w), window_length=>INTERVAL 10 SECONDS) t),
        inn AS (SELECT window_end, count(*) as c FROM tu GROUP BY window_end TRIGGER COUNTING 2)"
Q="SELECT window_end, sum(c) as s FROM inn GROUP BY window_end TRIGGER ON WATERMARK"

echo "### 2a: what the watermark-triggered GROUP BY emits (stream_native): note the '-' record"
$BIN -o stream_native "$W $Q" 2>&1 | grep -v '^{~'
echo "exit code: ${PIPESTATUS[0]}"

echo "### 2b: table output with ORDER BY ... LIMIT 1 -> Go panic"
$BIN -o batch_table "$W $Q ORDER BY window_end DESC LIMIT 1" 2>&1 | grep -v '^\s' | head -6
echo "exit code: ${PIPESTATUS[0]}"

echo "### 2c: json output without ORDER BY prints the retraction as if it were a row, exit 0"
$BIN -o json "$W $Q"
echo "exit code: $?"

echo "### 2d: json output with ORDER BY (consolidated) shows the correct answer for comparison"
$BIN -o json "$W $Q ORDER BY window_end"
echo "exit code: $?"
