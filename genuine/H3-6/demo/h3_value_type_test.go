package octosql

// Copy into <repo>/octosql/ and run:
//   go test -vet=off -count=1 -run TestH3ValueTypeOfObjectList ./octosql/

import "testing"

// h3conforms is the obvious "value matches type" relation.
func h3conforms(v Value, t Type) bool {
	switch t.TypeID {
	case TypeIDAny:
		return true
	case TypeIDUnion:
		for _, alternative := range t.Union.Alternatives {
			if h3conforms(v, alternative) {
				return true
			}
		}
		return false
	case TypeIDList:
		if v.TypeID != TypeIDList {
			return false
		}
		for _, element := range v.List {
			if t.List.Element == nil || !h3conforms(element, *t.List.Element) {
				return false
			}
		}
		return true
	case TypeIDStruct:
		if v.TypeID != TypeIDStruct || len(v.Struct) != len(t.Struct.Fields) {
			return false
		}
		for i := range v.Struct {
			if !h3conforms(v.Struct[i], t.Struct.Fields[i].Type) {
				return false
			}
		}
		return true
	case TypeIDTuple:
		if v.TypeID != TypeIDTuple || len(v.Tuple) != len(t.Tuple.Elements) {
			return false
		}
		for i := range v.Tuple {
			if !h3conforms(v.Tuple[i], t.Tuple.Elements[i]) {
				return false
			}
		}
		return true
	default:
		return v.TypeID == t.TypeID
	}
}

// A list of two objects with the same number of fields (what a multi column subquery expression evaluates to).
func TestH3ValueTypeOfObjectList(t *testing.T) {
	row1 := NewStruct([]Value{NewInt(1), NewString("x")})
	row2 := NewStruct([]Value{NewInt(2), NewNull()})
	for _, v := range []Value{
		NewList([]Value{row1, row2}),
		NewList([]Value{row2, row1}),
		NewTuple([]Value{NewList([]Value{row1, row2})}),
	} {
		typ := v.Type()
		if !h3conforms(v, typ) {
			t.Errorf("value %s reports the type %s, which it does not match", v, typ)
		}
	}
	// each element alone is fine:
	for _, v := range []Value{row1, row2, NewList([]Value{row1}), NewList([]Value{row1, row1})} {
		if typ := v.Type(); !h3conforms(v, typ) {
			t.Errorf("value %s reports the type %s, which it does not match", v, typ)
		}
	}
}
