#!/bin/sh
OCTOSQL=${OCTOSQL:-/tmp/wt/H9/_out/octosql}
echo "--- abs of the smallest Int is negative"
$OCTOSQL "SELECT abs(-9223372036854775807 - 1) as abs_min, abs(-9223372036854775807) as abs_min_plus_1, abs(-9223372036854775807 - 1) >= 0 as non_negative" -o json
echo "--- int() of floats outside the Int range / NaN / Inf: positive inputs become the most negative Int"
$OCTOSQL "SELECT int(1e300) as big, int(9223372036854775808.0) as two_pow_63, int(-1e300) as neg_big, int(sqrt(-1.0)) as nan, int(-log(0.0)) as pos_inf, int(log(0.0)) as neg_inf, int(1e300) > 0 as positive" -o json
echo "--- time_from_unix(Float) uses the same conversion"
$OCTOSQL "SELECT time_to_unix(time_from_unix(1e19)) as roundtrip_1e19, time_from_unix(-log(0.0)) as t_inf" -o json
