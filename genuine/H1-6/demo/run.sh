#!/bin/sh
# Finding 6: optimizer rewrites change the evaluation order of predicates -> the optimized plan fails where the unoptimized one answers.
cd "$(dirname "$0")"
. ../../common.sh
cat > u.csv <<'X'
a,b,c
1,1,9
1,2,5
2,0,0
X
cat > dz.csv <<'X'
id,d
1,1
7,0
X
cat > l.csv <<'X'
id,v
1,a
2,b
X
Q1="select a, b from (select * from u.csv where b != 0) x where a / b > 0"
check "filter merge: --optimize=false" "a,b
1,1" "$Q1" -o csv --optimize=false
check "filter merge: optimized (default)" "a,b
1,1" "$Q1" -o csv
Q2="select x.id, x.d from dz.csv x join l.csv l on x.id = l.id where 10 / x.d > 1"
check "push into join branch: --optimize=false" "id,d
1,1" "$Q2" -o csv --optimize=false
check "push into join branch: optimized (default)" "id,d
1,1" "$Q2" -o csv
finish
