package execution

// Copy into execution/ and run:
//   go test -vet=off -count=1 -run TestH4WatermarkTrigger ./execution/

import (
	"testing"
	"time"

	"github.com/cube2222/octosql/octosql"
)

// Two different groups whose time key is the same instant, but whose time.Time values are not
// identical Go structs (here: two *time.Location pointers for the same +05:30 offset, which is what
// time.Parse produces for every parsed "…+05:30" timestamp).
func TestH4WatermarkTriggerEqualInstantsDifferentLocationPointers(t *testing.T) {
	parse := func(s string) time.Time {
		v, err := time.Parse(time.RFC3339Nano, s)
		if err != nil {
			t.Fatal(err)
		}
		return v
	}
	// exactly what datasources/json does with a string field + what tumble does afterwards
	endA := parse("2020-01-01T10:00:01+05:30").Truncate(10 * time.Second).Add(10 * time.Second)
	endB := parse("2020-01-01T10:00:02+05:30").Truncate(10 * time.Second).Add(10 * time.Second)
	if !endA.Equal(endB) {
		t.Fatal("test setup: instants must be equal")
	}

	trigger := NewWatermarkTriggerPrototype(0)()
	keyA := GroupKey{octosql.NewTime(endA), octosql.NewString("a")}
	keyB := GroupKey{octosql.NewTime(endB), octosql.NewString("b")}
	trigger.KeyReceived(keyA)
	trigger.KeyReceived(keyB)

	trigger.WatermarkReceived(endA.Add(time.Minute))
	polled := trigger.Poll()
	t.Logf("keys fired on watermark: %d", len(polled))
	for _, k := range polled {
		t.Logf("  fired: %s %s", k[0].Time.Format(time.RFC3339), k[1].Str)
	}

	trigger.EndOfStreamReached()
	atEnd := trigger.Poll()
	t.Logf("keys fired at end of stream: %d", len(atEnd))

	if len(polled)+len(atEnd) != 2 {
		t.Errorf("2 distinct keys were received, but only %d were ever fired (watermark: %d, end of stream: %d)", len(polled)+len(atEnd), len(polled), len(atEnd))
	}
}
