#!/bin/sh
# Usage: run_cli.sh /path/to/octosql   (built from the unchanged tree: go build -o octosql .)
# Shows that GROUP BY ... TRIGGER ON WATERMARK silently loses groups when timestamps carry a +05:30 offset.
OCTOSQL=${1:-./octosql}
export OCTOSQL_NO_TELEMETRY=1
D=$(mktemp -d); cd "$D"
cat > ev530.json <<'JSON'
{"time": "2020-01-01T10:00:01+05:30", "user": "a"}
{"time": "2020-01-01T10:00:02+05:30", "user": "b"}
{"time": "2020-01-01T10:00:03+05:30", "user": "c"}
{"time": "2020-01-01T10:00:12+05:30", "user": "a"}
{"time": "2020-01-01T10:00:25+05:30", "user": "a"}
JSON
sed 's/+05:30/Z/' ev530.json > evz.json
for f in evz.json ev530.json; do
  for trig in "" "TRIGGER ON WATERMARK"; do
    echo "== $f  [$trig]"
    "$OCTOSQL" "WITH w AS (SELECT * FROM max_diff_watermark(source=>TABLE($f), max_diff=>INTERVAL 0 SECONDS, time_field=>DESCRIPTOR(time)) c), t AS (SELECT * FROM tumble(source=>TABLE(w), window_length=>INTERVAL 10 SECONDS) c) SELECT window_end, user, COUNT(*) AS c FROM t GROUP BY window_end, user $trig ORDER BY window_end, user" -o batch_table
  done
done
