#!/bin/bash
# Usage: ./run.sh [path to octosql binary]   (default /tmp/wt/H8/_out/octosql)
# Build first:  cd /tmp/wt/H8 && export GOFLAGS=-mod=mod GOPROXY=off GOSUMDB=off GOTOOLCHAIN=local && go build -o /tmp/wt/H8/_out/octosql .
BIN=${1:-/tmp/wt/H8/_out/octosql}
export OCTOSQL_NO_TELEMETRY=1
cd "$(dirname "$0")"
INNER="(SELECT a, count(*) as c FROM t2.json GROUP BY a TRIGGER COUNTING 1) x"

echo "### 1a: timestamp column over a live (retracting) aggregate, table output"
$BIN -o batch_table "SELECT now() as ts, x.a, x.c FROM $INNER" 2>&1 | grep -v '^\s' | head -6
echo "exit code: ${PIPESTATUS[0]}"

echo "### 1b: ORDER BY now() over a retracting aggregate, table output"
$BIN -o batch_table "SELECT a, count(*) as c FROM t2.json GROUP BY a TRIGGER COUNTING 1 ORDER BY now()" 2>&1 | grep -v '^\s' | head -6
echo "exit code: ${PIPESTATUS[0]}"

echo "### 1c: same timestamp subquery as the left side of a LEFT JOIN, json output"
$BIN -o json "SELECT y.ts, y.a, t.b FROM (SELECT now() as ts, x.a as a, x.c as c FROM $INNER) y LEFT JOIN t.json t ON y.a = t.a" 2>&1 | grep -v '^\s' | head -6
echo "exit code: ${PIPESTATUS[0]}"

echo "### 1d (not a crash, for reference): json output of 1a keeps the stale rows, exit 0"
$BIN -o json "SELECT now() as ts, x.a, x.c FROM $INNER"
echo "exit code: $?"

echo "### 1e: the same subquery in an inner JOIN with a larger table (the other side is still open when the retraction arrives)"
python3 -c "
for i in range(300000): print('{\"a\": %d, \"b\": \"r%d\"}' % (i % 5, i))" > big.json
$BIN -o json "SELECT y.ts, y.a, t.b FROM (SELECT now() as ts, x.a as a, x.c as c FROM $INNER) y JOIN big.json t ON y.a = t.a" 2>&1 | grep -v '^\s' | grep -v '^{' | head -4
echo "exit code: ${PIPESTATUS[0]}"
rm -f big.json

echo "### 1f (C08): GROUP BY now() over the retracting subquery: count(*) is typed Int (not nullable) but prints null"
$BIN --describe -o json "SELECT now() AS k, count(*) AS n FROM $INNER GROUP BY now()"
$BIN -o json "SELECT now() AS k, count(*) AS n FROM $INNER GROUP BY now()"
echo "exit code: $?"
