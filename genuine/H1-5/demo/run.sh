#!/bin/sh
# Finding 5: JOIN ... USING (col) is accepted and executed as a cross join.
cd "$(dirname "$0")"
. ../../common.sh
cat > l.csv <<'X'
id,v
1,a
2,b
2,c
,d
4,e
X
cat > r.csv <<'X'
id,w
2,X
2,Y
3,Z
,N
1,Q
X
EXP="v,w
a,Q
b,X
b,Y
c,X
c,Y"
check "JOIN ... ON l.id = r.id (control)" "$EXP" "select l.v, r.w from l.csv l join r.csv r on l.id = r.id order by v, w" -o csv
check "JOIN ... USING (id)" "$EXP" "select l.v, r.w from l.csv l join r.csv r using (id) order by v, w" -o csv
finish
