#!/bin/sh
# Usage: sh run.sh            (builds the CLI from the worktree into _out/octosql if needed, ~1 minute)
#    or: OCTOSQL=/path/to/octosql sh run.sh
O=${OCTOSQL:-$(cd "$(dirname "$0")/../.." && pwd)/octosql}
if [ ! -x "$O" ]; then
  (cd "$(dirname "$0")/../../.." && GOFLAGS=-mod=mod GOPROXY=off GOSUMDB=off GOTOOLCHAIN=local go build -o "$O" .) || exit 1
fi
export OCTOSQL_NO_TELEMETRY=1
cd "$(dirname "$0")"
echo "--- the three time values are distinct inside the engine"
$O "select count(distinct t) as distinct_times from ./t.json" -o json
echo "--- -o json"
$O "select id, t from ./t.json" -o json
echo "--- -o csv"
$O "select id, t from ./t.json" -o csv
echo "--- decoding the json output again"
$O "select id, t from ./t.json" -o json > ./out.json
$O "select count(distinct t) as distinct_times from ./out.json" -o json
rm -f ./out.json
