#!/bin/bash
# Finding 5: the top-level LIMIT expression is neither type- nor scope-checked.
cd "$(dirname "$0")"
. ../../common/build.sh
run() { echo; echo "### $*"; $OCTOSQL "$@" 2>&1 | grep -v -E '^(Usage|  octosql|Examples|octosql "|Available|  completion|  help|  plugin|Flags|      --|  -|Use ")|^$' | head -7; echo "exit status: ${PIPESTATUS[0]}"; }
run "SELECT id FROM t.json LIMIT id" -o json
run "SELECT id FROM t.json LIMIT id" -o batch_table
run "SELECT id FROM t.json ORDER BY id LIMIT id" -o json
run "SELECT id FROM t.json LIMIT 'a'" -o json
run "SELECT id FROM t.json LIMIT 1.5" -o json
run "SELECT id FROM t.json LIMIT NULL" -o csv
run "SELECT id FROM t.json LIMIT -1" -o json
echo; echo "### reference: the same LIMITs in a subquery are rejected by the typechecker / at run time"
run "SELECT * FROM (SELECT id FROM t.json LIMIT 'a') q" -o json
run "SELECT * FROM (SELECT id FROM t.json ORDER BY id LIMIT -1) q" -o json
