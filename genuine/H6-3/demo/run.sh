#!/bin/sh
# usage: sh run.sh [path-to-octosql-binary]
OCTOSQL=${1:-/tmp/wt/H6/_out/octosql}
export OCTOSQL_NO_TELEMETRY=1
D=$(mktemp -d); cd "$D"
cat > p.csv <<'C'
id,note
1,100%
2,50%d off
3,x%b
4,plain
5,%s%s%s
C
for o in csv json batch_table stream_native; do
  echo "--- -o $o"
  "$OCTOSQL" "SELECT id, note FROM p.csv ORDER BY id LIMIT 5" -o $o 2>&1 | tail -9
done
echo "--- literal in the query, -o stream_native"
"$OCTOSQL" "SELECT 'x%b' AS s, '100%' AS p FROM p.csv LIMIT 1" -o stream_native 2>&1 | tail -2
rm -rf "$D"
