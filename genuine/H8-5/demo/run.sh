#!/bin/bash
BIN=${1:-/tmp/wt/H8/_out/octosql}
export OCTOSQL_NO_TELEMETRY=1
cd "$(dirname "$0")"
echo "### alias key_1 for the first grouping key: column shows the values of b"
$BIN -o json "SELECT a AS key_1, count(*) as c FROM t.json GROUP BY a, b"; echo "exit code: $?"
echo "### any other alias: column shows the values of a"
$BIN -o json "SELECT a AS k, count(*) as c FROM t.json GROUP BY a, b"; echo "exit code: $?"
echo "### --describe agrees with the wrong column (type of b)"
$BIN --describe -o json "SELECT a AS key_1, count(*) as c FROM t.json GROUP BY a, b"
