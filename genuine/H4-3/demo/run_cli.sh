#!/bin/sh
# Usage: run_cli.sh /path/to/octosql
# The outer sum/avg receive +(1,1e17) +(2,1.5) -(1,1e17) +(1,0) when the inner GROUP BY uses TRIGGER COUNTING 1,
# and only +(2,1.5) +(1,0) with the default trigger. The final answer must not depend on that.
OCTOSQL=${1:-./octosql}
export OCTOSQL_NO_TELEMETRY=1
D=$(mktemp -d); cd "$D"
cat > t.json <<'JSON'
{"k": 1, "v": 1e17}
{"k": 2, "v": 1.5}
{"k": 1, "v": -1e17}
JSON
echo "== inner query";  "$OCTOSQL" "SELECT k, sum(v) AS s FROM t.json GROUP BY k" -o json
echo "== outer over inner with default trigger"
"$OCTOSQL" "SELECT sum(s) AS total, avg(s) AS mean FROM (SELECT k, sum(v) AS s FROM t.json GROUP BY k) x" -o json
echo "== outer over inner with TRIGGER COUNTING 1 (same data, must be the same answer)"
"$OCTOSQL" "SELECT sum(s) AS total, avg(s) AS mean FROM (SELECT k, sum(v) AS s FROM t.json GROUP BY k TRIGGER COUNTING 1) x" -o batch_table
