package aggregates

// Copy into aggregates/ and run:
//   go test -vet=off -count=1 -run TestH4FloatSum ./aggregates/

import (
	"math"
	"testing"

	"github.com/cube2222/octosql/execution/nodes"
	"github.com/cube2222/octosql/octosql"
)

type h4Step struct {
	retract bool
	v       float64
}

func h4Run(proto func() nodes.Aggregate, hist []h4Step) (got, want octosql.Value) {
	agg := proto()
	var net []float64
	for _, s := range hist {
		agg.Add(s.retract, octosql.NewFloat(s.v))
		if !s.retract {
			net = append(net, s.v)
		} else {
			for i := range net {
				if net[i] == s.v || (math.IsNaN(net[i]) && math.IsNaN(s.v)) {
					net = append(net[:i], net[i+1:]...)
					break
				}
			}
		}
	}
	scratch := proto()
	for _, v := range net {
		scratch.Add(false, octosql.NewFloat(v))
	}
	return agg.Trigger(), scratch.Trigger()
}

func TestH4FloatSumAvgNotInvariantUnderRetractions(t *testing.T) {
	histories := map[string][]h4Step{
		// a large value that is later retracted absorbs the small ones for good
		"absorption":  {{false, 1e17}, {false, 1.5}, {true, 1e17}},
		"absorption2": {{false, 1e308}, {false, 0.1}, {false, 1.5}, {true, 1e308}},
		// a transient overflow sticks
		"overflow": {{false, 1e308}, {false, 1e308}, {true, 1e308}},
		// a retracted NaN poisons the sum forever
		"nan": {{false, math.NaN()}, {false, 2.5}, {true, math.NaN()}},
	}
	protos := map[string]func() nodes.Aggregate{
		"sum":          NewSumFloatPrototype(),
		"avg":          NewAverageFloatPrototype(),
		"sum_distinct": NewDistinctPrototype(NewSumFloatPrototype()),
		"avg_distinct": NewDistinctPrototype(NewAverageFloatPrototype()),
	}
	for hname, hist := range histories {
		for pname, proto := range protos {
			got, want := h4Run(proto, hist)
			ok := got.Float == want.Float || math.Abs(got.Float-want.Float) <= 1e-9*math.Abs(want.Float)
			if !ok {
				t.Errorf("%s(%s): after the history the aggregate reports %v, the aggregate of the net multiset computed from scratch is %v", pname, hname, got.Float, want.Float)
			}
		}
	}
}
