#!/bin/sh
# usage: sh run.sh [path-to-octosql-binary]
OCTOSQL=${1:-/tmp/wt/H6/_out/octosql}
export OCTOSQL_NO_TELEMETRY=1
D=$(mktemp -d); cd "$D"
cat > u.csv <<'C'
k,g
1,a
2,a
3,b
4,b
5,
6,
7,a
C
echo "--- Q1: ORDER BY 2 DESC, 1 DESC LIMIT 3   (SQL: 4,b / 3,b / 7,a)"
"$OCTOSQL" "SELECT k, g FROM u.csv ORDER BY 2 DESC, 1 DESC LIMIT 3" -o csv 2>&1 | tail -4
echo "--- Q1 reference with column names"
"$OCTOSQL" "SELECT k, g FROM u.csv ORDER BY g DESC, k DESC LIMIT 3" -o csv 2>&1 | tail -4
echo "--- Q2: ORDER BY 1 DESC (SQL: 7,6,5,4,3,2,1)"
"$OCTOSQL" "SELECT k FROM u.csv ORDER BY 1 DESC" -o csv 2>&1 | tail -8 | tr '\n' ' '; echo
echo "--- Q3: nested: the 2 largest k (SQL: 7,6)"
"$OCTOSQL" "SELECT * FROM (SELECT k FROM u.csv ORDER BY 1 DESC LIMIT 2) x" -o csv 2>&1 | tail -3 | tr '\n' ' '; echo
echo "--- Q4: an out of range ordinal is accepted too (SQL: error)"
"$OCTOSQL" "SELECT k FROM u.csv ORDER BY 99 LIMIT 1" -o csv 2>&1 | tail -2 | tr '\n' ' '; echo
rm -rf "$D"
