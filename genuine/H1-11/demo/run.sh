#!/bin/sh
# Finding 11: csv file with a repeated header name: unused-column removal misaligns d.fields[i] and indicesToRead -> panic (optimized plan only).
cd "$(dirname "$0")"
. ../../common.sh
cat > dup.csv <<'X'
a,b,a
1,x,10
2,y,20
X
Q="select a from dup.csv"
check "--optimize=false" "a
10
20" "$Q" -o csv --optimize=false
A=$("$OCTOSQL" "$Q" -o csv 2>&1 | grep -v '^\t\|^goroutine\|^github\|^main' | head -3)
echo "default (optimized)   : $A"
if echo "$A" | grep -q '^panic'; then FAILED=1; echo "FAIL: optimized plan panics"; fi
finish
