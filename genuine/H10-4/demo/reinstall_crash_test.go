package manager

// Demonstrates that re-installing a plugin version that is already installed is not crash safe:
// Install removes the installed version directory (os.RemoveAll) BEFORE the freshly unpacked one is renamed into place.
//
// Run (from the repository root, HOME redirected so nothing outside the work tree is touched):
//
//	HOME=$(mktemp -d) go test -vet=off -count=1 -run TestReinstallCrash -v ./plugins/manager/
//
// The test starts an in-process HTTP server with a repository, a manifest and a plugin archive, installs the plugin once
// (child process), then installs the same version again in a second child process, which is killed (SIGKILL) as soon as
// the installed binary disappears. After the kill the state of the plugin directory is inspected the way `octosql` does at startup.

import (
	"archive/tar"
	"bytes"
	"compress/gzip"
	"context"
	"fmt"
	"net/http"
	"net/http/httptest"
	"os"
	"os/exec"
	"path/filepath"
	"syscall"
	"testing"
	"time"

	"github.com/cube2222/octosql/config"
	"github.com/cube2222/octosql/plugins/repository"
)

const extraFilesInArchive = 20000

func buildArchive(t *testing.T) []byte {
	var buf bytes.Buffer
	gz := gzip.NewWriter(&buf)
	tw := tar.NewWriter(gz)
	add := func(name string, mode int64, body []byte) {
		if err := tw.WriteHeader(&tar.Header{Name: name, Mode: mode, Size: int64(len(body)), Typeflag: tar.TypeReg}); err != nil {
			t.Fatal(err)
		}
		if _, err := tw.Write(body); err != nil {
			t.Fatal(err)
		}
	}
	// Data files first, so that they are unlinked before/around the binary; a plugin may ship any number of files.
	if err := tw.WriteHeader(&tar.Header{Name: "data/", Mode: 0755, Typeflag: tar.TypeDir}); err != nil {
		t.Fatal(err)
	}
	for i := 0; i < extraFilesInArchive; i++ {
		add(fmt.Sprintf("data/f%05d", i), 0644, []byte("x"))
	}
	add("octosql-plugin-alpha", 0755, []byte("#!/bin/sh\nexit 0\n"))
	if err := tw.Close(); err != nil {
		t.Fatal(err)
	}
	if err := gz.Close(); err != nil {
		t.Fatal(err)
	}
	return buf.Bytes()
}

// TestReinstallCrashChild is the process that gets killed. It only runs when started by TestReinstallCrash.
func TestReinstallCrashChild(t *testing.T) {
	url := os.Getenv("H10_REPO_URL")
	if url == "" {
		t.Skip("helper process")
	}
	repo, err := repository.GetRepository(context.Background(), url)
	if err != nil {
		t.Fatal(err)
	}
	m := &PluginManager{Repositories: []repository.Repository{repo}}
	if err := m.Install(context.Background(), "alpha", nil); err != nil {
		t.Fatal(err)
	}
}

func TestReinstallCrash(t *testing.T) {
	if os.Getenv("H10_REPO_URL") != "" {
		t.Skip("this is the helper process")
	}
	archive := buildArchive(t)
	var srv *httptest.Server
	srv = httptest.NewServer(http.HandlerFunc(func(w http.ResponseWriter, r *http.Request) {
		switch r.URL.Path {
		case "/repo.json":
			fmt.Fprintf(w, `{"name":"local","slug":"core","plugins":[{"name":"alpha","file_extensions":[],"manifest_url":"%s/manifest.json"}]}`, srv.URL)
		case "/manifest.json":
			fmt.Fprintf(w, `{"binary_download_url_pattern":"%s/alpha_{{version}}.tar.gz","versions":[{"number":"0.1.0"}]}`, srv.URL)
		case "/alpha_0.1.0.tar.gz":
			w.Write(archive)
		default:
			http.NotFound(w, r)
		}
	}))
	defer srv.Close()

	pluginDir := t.TempDir()
	home := t.TempDir()
	env := append(os.Environ(),
		"H10_REPO_URL="+srv.URL+"/repo.json",
		"OCTOSQL_PLUGIN_DIR="+pluginDir,
		"HOME="+home,
		"XDG_CONFIG_HOME="+filepath.Join(home, ".config"),
		"XDG_DATA_HOME="+filepath.Join(home, ".local"),
		"XDG_CACHE_HOME="+filepath.Join(home, ".cache"),
	)
	os.Setenv("OCTOSQL_PLUGIN_DIR", pluginDir)
	child := func() *exec.Cmd {
		cmd := exec.Command(os.Args[0], "-test.run=^TestReinstallCrashChild$", "-test.v")
		cmd.Env = env
		return cmd
	}

	// 1. First installation, runs to completion.
	if out, err := child().CombinedOutput(); err != nil {
		t.Fatalf("first install failed: %v\n%s", err, out)
	}
	m := &PluginManager{}
	ref := config.PluginReference{Name: "alpha", Repository: "core"}
	check := func(stage string) (resolvable bool) {
		installed, err := m.ListInstalledPlugins()
		if err != nil {
			t.Logf("[%s] ListInstalledPlugins error: %v", stage, err)
			return false
		}
		if len(installed) == 0 {
			t.Logf("[%s] no plugin is installed any more", stage)
			return false
		}
		for _, p := range installed {
			for _, v := range p.Versions {
				path, err := m.GetPluginBinaryPath(p.Reference, v.Number)
				t.Logf("[%s] listed as installed: %s %s -> binary path %q, err: %v", stage, p.Reference.String(), v.Number, path, err)
				if p.Reference == ref && err == nil {
					resolvable = true
				}
			}
		}
		return resolvable
	}
	if !check("after first install") {
		t.Fatal("setup problem: plugin not installed by the first install")
	}

	// 2. Install the same version again, kill the process once the old binary is gone.
	binary := filepath.Join(pluginDir, "core", "octosql-plugin-alpha", "0.1.0", "octosql-plugin-alpha")
	killed := false
	for attempt := 1; attempt <= 10 && !killed; attempt++ {
		cmd := child()
		if err := cmd.Start(); err != nil {
			t.Fatal(err)
		}
		done := make(chan error, 1)
		go func() { done <- cmd.Wait() }()
		deadline := time.After(2 * time.Minute)
	poll:
		for {
			select {
			case err := <-done:
				t.Logf("attempt %d: re-install finished before it could be killed (err=%v), trying again", attempt, err)
				break poll
			case <-deadline:
				t.Fatal("timeout")
			default:
			}
			if _, err := os.Stat(binary); os.IsNotExist(err) {
				cmd.Process.Signal(syscall.SIGKILL)
				<-done
				killed = true
				t.Logf("attempt %d: re-install killed", attempt)
				break poll
			}
		}
	}
	if !killed {
		t.Skip("could not hit the window")
	}

	// 3. What the next `octosql` start sees.
	if !check("after killed re-install") {
		t.Errorf("C27 violated: after an interrupted re-install of core/alpha 0.1.0 neither the previous nor the new installation is runnable")
	}
}
