#!/bin/sh
# Finding 12: an aggregate query without GROUP BY over an empty input prints no row at all (SQL: exactly one row).
cd "$(dirname "$0")"
. ../../common.sh
cat > u.csv <<'X'
a,b
1,1
1,2
2,0
X
check "global aggregate over a non-empty input (control)" '{"n":3,"s":4,"m":2}' "select count(*) as n, sum(a) as s, max(a) as m from u.csv" -o json
check "global aggregate over an empty input" '{"n":0,"s":null,"m":null}' "select count(*) as n, sum(a) as s, max(a) as m from u.csv where a > 100" -o json
check "... used as a subquery" '{"c":1}' "select count(*) as c from (select count(*) as n from u.csv where a > 100) x" -o json
finish
