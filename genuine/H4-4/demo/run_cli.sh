#!/bin/sh
# Usage: run_cli.sh /path/to/octosql
# The same in-order events, once dated 1979 and once 1969: with the 1969 dates max_diff_watermark drops in-order records.
OCTOSQL=${1:-./octosql}
export OCTOSQL_NO_TELEMETRY=1
D=$(mktemp -d); cd "$D"
cat > apollo1969.json <<'JSON'
{"time": "1969-07-20T20:17:40.2Z", "event": "contact light"}
{"time": "1969-07-20T20:17:40.5Z", "event": "engine stop"}
{"time": "1969-07-20T20:17:40.9Z", "event": "ACA out of detent"}
{"time": "1969-07-20T20:17:43.1Z", "event": "we copy you down"}
{"time": "1969-07-20T20:17:58.4Z", "event": "the eagle has landed"}
JSON
sed 's/1969/1979/' apollo1969.json > apollo1979.json
for f in apollo1979.json apollo1969.json; do
  echo "== $f, default resolution (1s), max_diff 0"
  "$OCTOSQL" "SELECT * FROM max_diff_watermark(source=>TABLE($f), max_diff=>INTERVAL 0 SECONDS, time_field=>DESCRIPTOR(time)) c" -o stream_native
  echo "== $f, resolution 1 minute, max_diff 0"
  "$OCTOSQL" "SELECT * FROM max_diff_watermark(source=>TABLE($f), max_diff=>INTERVAL 0 SECONDS, time_field=>DESCRIPTOR(time), resolution=>INTERVAL 1 MINUTE) c" -o stream_native
done
