package table_valued_functions

// Copy into table_valued_functions/ and run:
//   go test -vet=off -count=1 -run TestH4MaxDiffWatermark ./table_valued_functions/

import (
	"testing"
	"time"

	"github.com/cube2222/octosql/execution"
	"github.com/cube2222/octosql/octosql"
)

type h4TimesSource struct {
	times []time.Time
	sent  *int // number of records handed to max_diff_watermark so far
}

func (s h4TimesSource) Run(ctx execution.ExecutionContext, produce execution.ProduceFn, metaSend execution.MetaSendFn) error {
	for i, tm := range s.times {
		*s.sent = i + 1
		if err := produce(execution.ProduceFromExecutionContext(ctx),
			execution.NewRecord([]octosql.Value{octosql.NewTime(tm), octosql.NewInt(int64(i))}, false, time.Time{})); err != nil {
			return err
		}
	}
	return nil
}

func h4RunMaxDiff(t *testing.T, times []time.Time, maxDiff, resolution time.Duration) {
	sent := 0
	node := &maxDifferenceWatermarkGenerator{
		source:         h4TimesSource{times, &sent},
		maxDifference:  execution.NewConstant(octosql.NewDuration(maxDiff)),
		resolution:     execution.NewConstant(octosql.NewDuration(resolution)),
		timeFieldIndex: 0,
	}
	passed := 0
	err := node.Run(execution.ExecutionContext{}, func(ctx execution.ProduceContext, r execution.Record) error {
		passed++
		return nil
	}, func(ctx execution.ProduceContext, msg execution.MetadataMessage) error {
		var largest time.Time
		for _, tm := range times[:sent] {
			if tm.After(largest) {
				largest = tm
			}
		}
		// Time.Truncate rounds down (towards -infinity) to a multiple of the resolution since the zero time; for 1s/1m/1h
		// resolutions these are the same grid points as multiples since the Unix epoch.
		want := largest.Truncate(resolution).Add(-maxDiff)
		if !want.Equal(msg.Watermark) {
			t.Errorf("after %d records (largest time seen %s) watermark %s was emitted; (largest rounded down to %s) - max_diff = %s",
				sent, largest.Format(time.RFC3339Nano), msg.Watermark.UTC().Format(time.RFC3339Nano), resolution, want.UTC().Format(time.RFC3339Nano))
		}
		return nil
	})
	if err != nil {
		t.Fatal(err)
	}
	if passed != len(times) {
		t.Errorf("strictly increasing times, max_diff=%s: every record is above the prescribed watermark and must pass, but only %d of %d records passed", maxDiff, passed, len(times))
	}
}

func TestH4MaxDiffWatermarkBefore1970(t *testing.T) {
	mk := func(year int) []time.Time {
		var out []time.Time
		for _, ms := range []int{200, 500, 900, 3100, 18400} {
			out = append(out, time.Date(year, 7, 20, 20, 17, 40, 0, time.UTC).Add(time.Duration(ms)*time.Millisecond))
		}
		return out
	}
	t.Run("1979/resolution=1s", func(t *testing.T) { h4RunMaxDiff(t, mk(1979), 0, time.Second) })
	t.Run("1969/resolution=1s", func(t *testing.T) { h4RunMaxDiff(t, mk(1969), 0, time.Second) })
	t.Run("1969/resolution=1m", func(t *testing.T) { h4RunMaxDiff(t, mk(1969), 0, time.Minute) })
}
