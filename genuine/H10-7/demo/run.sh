#!/bin/sh
WT=${WT:-/tmp/wt/H10}
export GOFLAGS=-mod=mod GOPROXY=off GOSUMDB=off GOTOOLCHAIN=local OCTOSQL_NO_TELEMETRY=1
[ -x $WT/_out/octosql ] || (cd $WT && go build -o $WT/_out/octosql .)
D=$(mktemp -d); cd $D
# RFC 4180 file: CRLF record ends, one quoted field that contains a CRLF, one that contains a lone CR LF pair twice
printf 'id,note\r\n1,"line1\r\nline2"\r\n2,"a\r\n\r\nb"\r\n3,plain\r\n' > data.csv
echo "--- data.csv (od -c):"; od -c data.csv | head -6
echo "--- python csv module reads:"
python3 -c "
import csv
for r in csv.reader(open('data.csv', newline='')): print(r)"
echo "--- octosql SELECT id, note, len(note) FROM data.csv -o json:"
$WT/_out/octosql "SELECT id, note, len(note) as l FROM data.csv" -o json 2>&1 | tail -3
rm -rf $D
