#!/bin/sh
# Usage: sh run.sh            (builds the CLI from the worktree into _out/octosql if needed, ~1 minute)
#    or: OCTOSQL=/path/to/octosql sh run.sh
O=${OCTOSQL:-$(cd "$(dirname "$0")/../.." && pwd)/octosql}
if [ ! -x "$O" ]; then
  (cd "$(dirname "$0")/../../.." && GOFLAGS=-mod=mod GOPROXY=off GOSUMDB=off GOTOOLCHAIN=local go build -o "$O" .) || exit 1
fi
export OCTOSQL_NO_TELEMETRY=1
cd "$(dirname "$0")"
echo "--- select * (first 'value' column loses its name)"
$O "select * from ./dup.csv" -o json
echo "--- select value (panics)"
$O "select value from ./dup.csv" -o json 2>&1 | head -6
echo "--- select id, value (panics)"
$O "select id, value from ./dup.csv" -o json 2>&1 | head -3
echo "--- select value with --optimize=false (works, picks the last column)"
$O "select value from ./dup.csv" -o json --optimize=false
