#!/bin/sh
# Finding 1: OuterJoin advertises Schema.NoRetractions=true although it emits retractions itself.
cd "$(dirname "$0")"
. ../../common.sh

# l: ids 1..400, r: ids 1..400 (every row has exactly one partner) + one unmatched right row (id 1000)
{ echo "id,v"; seq 1 400 | awk '{printf "%d,v%04d\n", $1, $1}'; } > l.csv
{ echo "id,w"; seq 1 400 | awk '{printf "%d,w%04d\n", $1, $1}'; echo "1000,w1000"; } > r.csv

JOIN="select l.id, l.v, r.id as rid, r.w from l.csv l right join r.csv r on l.id = r.id"

EXP_TOP3="id,v,rid,w
,,1000,w1000
1,v0001,1,w0001
2,v0002,2,w0002"

i=0
while [ $i -lt 10 ]; do
  i=$((i+1))
  # (a) ORDER BY + LIMIT, csv: the first 3 rows of the sort order (NULL first)
  check "run $i: right join ORDER BY v LIMIT 3 (csv)" "$EXP_TOP3" "$JOIN order by v limit 3" -o csv
  # (b) the same in batch_table mode must not crash
  out=$("$OCTOSQL" "$JOIN order by v limit 3" -o batch_table 2>&1)
  if echo "$out" | grep -q '^panic'; then FAILED=1; echo "FAIL: run $i: batch_table ORDER BY v LIMIT 3 crashed: $(echo "$out" | grep '^panic')"; fi
  # (c) LIMIT n used as a subquery must return min(n, 401) = 401 rows
  n=$("$OCTOSQL" "select count(*) as n from ($JOIN limit 401) x" -o csv 2>&1 | tail -1)
  if [ "$n" != "401" ]; then FAILED=1; echo "FAIL: run $i: nested LIMIT 401 over a 401-row right join returned $n rows"; fi
done
finish
