#!/bin/bash
# Finding 3: calling len with no arguments passes the typechecker and crashes at run time.
cd "$(dirname "$0")"
. ../../common/build.sh
echo "### --describe accepts the call and reports type NULL"
$OCTOSQL "SELECT len() FROM t.json" --describe -o json; echo "exit status: $?"
echo; echo "### running it"
$OCTOSQL "SELECT len() FROM t.json" -o json 2>&1 | head -9; echo "exit status: ${PIPESTATUS[0]}"
echo; echo "### also inside WHERE"
$OCTOSQL "SELECT id FROM t.json WHERE len() = 1" -o json 2>&1 | head -4; echo "exit status: ${PIPESTATUS[0]}"
echo; echo "### reference: other arities are rejected at typecheck time"
$OCTOSQL "SELECT len(s, s) FROM t.json" -o json 2>&1 | tail -1; $OCTOSQL "SELECT upper() FROM t.json" -o json 2>&1 | tail -1
