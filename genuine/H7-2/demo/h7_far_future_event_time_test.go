package nodes

// Copy into execution/nodes/ and run:
//   go test -vet=off -count=1 -run TestH7FarFuture ./execution/nodes/

import (
	"context"
	"testing"
	"time"

	. "github.com/cube2222/octosql/execution"
	"github.com/cube2222/octosql/octosql"
)

type h7Records struct{ records []Record }

func (s *h7Records) Run(ctx ExecutionContext, produce ProduceFn, metaSend MetaSendFn) error {
	for _, r := range s.records {
		if err := produce(ProduceFromExecutionContext(ctx), r); err != nil {
			return err
		}
	}
	return nil
}

type h7Field struct{ index int }

func (v *h7Field) Evaluate(ctx ExecutionContext) (octosql.Value, error) {
	return ctx.VariableContext.Values[v.index], nil
}

func h7Collect(t *testing.T, node Node) []Record {
	var out []Record
	if err := node.Run(ExecutionContext{Context: context.Background()}, func(ctx ProduceContext, record Record) error {
		out = append(out, record)
		return nil
	}, func(ctx ProduceContext, msg MetadataMessage) error { return nil }); err != nil {
		t.Fatal(err)
	}
	return out
}

func h7Sides(eventTime time.Time) (Node, Node) {
	left := &h7Records{records: []Record{NewRecord([]octosql.Value{octosql.NewInt(1), octosql.NewString("l")}, false, eventTime)}}
	right := &h7Records{records: []Record{NewRecord([]octosql.Value{octosql.NewInt(1), octosql.NewString("r")}, false, eventTime)}}
	return left, right
}

func TestH7FarFutureStreamJoin(t *testing.T) {
	for _, eventTime := range []time.Time{
		time.Date(2262, 4, 11, 0, 0, 0, 0, time.UTC), // just below execution.WatermarkMaxValue (2262-04-11T23:47:16.854775807Z)
		time.Date(2262, 4, 12, 0, 0, 0, 0, time.UTC), // just above
		time.Date(2300, 1, 1, 0, 0, 0, 0, time.UTC),
	} {
		left, right := h7Sides(eventTime)
		out := h7Collect(t, NewStreamJoin(left, right, []Expression{&h7Field{0}}, []Expression{&h7Field{0}}))
		if len(out) != 1 {
			t.Errorf("stream join, event time %s: expected 1 joined record at end of stream, got %d", eventTime.Format(time.RFC3339), len(out))
		}
	}
}

func TestH7FarFutureOuterJoin(t *testing.T) {
	eventTime := time.Date(2300, 1, 1, 0, 0, 0, 0, time.UTC)
	left, right := h7Sides(eventTime)
	out := h7Collect(t, NewOuterJoin(left, right, 2, 2, []Expression{&h7Field{0}}, []Expression{&h7Field{0}}, true, true))
	// The consolidated output must be the one joined row (possibly after a padded row and its retraction).
	count := 0
	for _, r := range out {
		if r.Retraction {
			count--
		} else {
			count++
		}
	}
	if count != 1 {
		t.Errorf("full outer join, event time 2300: expected 1 row at end of stream, got %d (%v)", count, out)
	}
}

func TestH7FarFutureEventTimeBuffer(t *testing.T) {
	// EventTimeBuffer is put in front of every group by with a TRIGGER clause.
	eventTime := time.Date(2300, 1, 1, 0, 0, 0, 0, time.UTC)
	source := &h7Records{records: []Record{NewRecord([]octosql.Value{octosql.NewInt(1)}, false, eventTime)}}
	out := h7Collect(t, NewEventTimeBuffer(source))
	if len(out) != 1 {
		t.Errorf("event time buffer, event time 2300: expected the record to be passed on at end of stream, got %d records", len(out))
	}
}
