#!/bin/bash
# Finding 2 demo. Usage: bash run.sh   (set OCTOSQL=/path/to/octosql to use another binary)
O=${OCTOSQL:-/tmp/wt/H7/_out/octosql}
export HOME=$(mktemp -d) OCTOSQL_NO_TELEMETRY=1
D=$(mktemp -d); cd $D
flt() { grep -v '^  \|^$\|^Usage\|^Examples\|^Flags\|^Available\|^octosql \|^Use \|^goroutine\|^	\|^github.com\|^main\.\|^runtime\.\|^created by'; }
run() { echo "\$ octosql \"$Q\" $*"; $O "$Q" "$@" 2>&1 | flt; echo; }
printf 'id,k,v\n1,1,x\n2,2,y\n3,,z\n4,2,w\n5,7,q\n' > a.csv
printf 'id,k,name\n10,1,one\n11,2,two\n12,,nul\n13,2,deux\n14,9,nine\n' > b.csv
cat > t1.csv <<'XX'
id,k,t
1,1,2020-01-01T00:00:00Z
2,2,2020-01-01T00:00:10Z
3,1,2300-01-01T00:00:00Z
4,2,2300-01-01T00:00:10Z
XX
cat > t2.csv <<'XX'
id,k,t
10,1,2020-01-01T00:00:05Z
11,2,2299-01-01T00:00:05Z
XX
X="max_diff_watermark(source=>TABLE(t1.csv), max_diff=>INTERVAL 1 SECOND, time_field=>DESCRIPTOR(t)) x"
Y="max_diff_watermark(source=>TABLE(t2.csv), max_diff=>INTERVAL 1 SECOND, time_field=>DESCRIPTOR(t)) y"
echo "### reference: the same tables without event times"
Q="SELECT x.id, y.id FROM t1.csv x JOIN t2.csv y ON x.k = y.k"; run -o csv
echo "### the watermarked source alone delivers all four rows"
Q="SELECT x.id, x.t FROM $X"; run -o csv
echo "### inner stream join of the watermarked sources: rows with an event time after 2262-04-11 are lost"
Q="SELECT x.id, y.id FROM $X JOIN $Y ON x.k = y.k"; run -o csv
echo "### full outer join: they don't even show up NULL padded"
Q="SELECT x.id, y.id FROM $X OUTER JOIN $Y ON x.k = y.k"; run -o csv
echo "### group by with a trigger (reads through an EventTimeBuffer): expected 1,2 and 2,2"
Q="SELECT x.k, count(*) as c FROM $X GROUP BY x.k TRIGGER COUNTING 100"; run -o csv
echo "### the same group by without a trigger"
Q="SELECT x.k, count(*) as c FROM $X GROUP BY x.k"; run -o csv
