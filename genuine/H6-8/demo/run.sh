#!/bin/sh
# usage: sh run.sh [path-to-octosql-binary]
OCTOSQL=${1:-/tmp/wt/H6/_out/octosql}
export OCTOSQL_NO_TELEMETRY=1
D=$(mktemp -d); cd "$D"
printf 'i,x\n1,3\n2,\n3,2.5\n4,1\n'  > withnull.csv    # x: 3, NULL, 2.5, 1
printf 'i,x\n1,3\n2,7\n3,2.5\n4,1\n' > nonull.csv      # x: 3, 7, 2.5, 1     (reference)
run() { echo "== $1"; "$OCTOSQL" "$1" -o json 2>&1 | tail -5 | grep -v '^$' | grep -v 'octosql \[command\]' | grep -v -- '--version'; }
for f in nonull withnull; do
  echo "##### $f.csv"
  "$OCTOSQL" "SELECT * FROM $f.csv" --describe 2>&1 | grep "'x'"
  run "SELECT x FROM $f.csv ORDER BY x"
  run "SELECT x FROM $f.csv ORDER BY x DESC LIMIT 1"
  run "SELECT sum(x) AS s, max(x) AS m FROM $f.csv"
  run "SELECT x FROM $f.csv WHERE x > 2.0"
  run "SELECT DISTINCT x = 3.0 AS is3 FROM $f.csv WHERE i = 1"
done
rm -rf "$D"
