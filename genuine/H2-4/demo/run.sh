#!/bin/bash
# Finding 4: COALESCE over tuples of different lengths typechecks and then crashes while the plan is materialized.
cd "$(dirname "$0")"
. ../../common/build.sh
Q="SELECT COALESCE((id, s), (id, s, 1)) AS c FROM t.json"
echo "### --describe: $Q"
$OCTOSQL "$Q" --describe -o json; echo "exit status: $?"
echo; echo "### run: $Q"
$OCTOSQL "$Q" -o json 2>&1 | head -9; echo "exit status: ${PIPESTATUS[0]}"
echo; echo "### constants only"
$OCTOSQL "SELECT COALESCE((1, 2, 3), (1, 2)) FROM t.json" -o json 2>&1 | head -4; echo "exit status: ${PIPESTATUS[0]}"
