#!/bin/sh
OCTOSQL=${OCTOSQL:-/tmp/wt/H9/_out/octosql}
cd "$(dirname "$0")"
echo "--- works: key selected once"
$OCTOSQL "SELECT k as a, count(*) as c FROM t.json GROUP BY k" -o json
echo "--- works without GROUP BY: same column twice"
$OCTOSQL "SELECT k as a, k as b FROM t.json LIMIT 1" -o json
echo "--- fails: the group key selected twice"
$OCTOSQL "SELECT k as a, k as b, count(*) as c FROM t.json GROUP BY k" -o json 2>&1 | grep Error
$OCTOSQL "SELECT k, k, count(*) as c FROM t.json GROUP BY k" -o json 2>&1 | grep Error
$OCTOSQL "SELECT k as a, k as b, count(*) as c FROM t.json GROUP BY k TRIGGER COUNTING 1" -o json 2>&1 | grep Error
