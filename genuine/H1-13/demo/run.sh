#!/bin/sh
# Finding 13: = / != / IN / join keys between an Int and a Float typecheck fine but never compare equal (1 = 1.0 is FALSE).
cd "$(dirname "$0")"
. ../../common.sh
cat > t.json <<'X'
{"a":1,"b":"x"}
{"a":2,"b":"y"}
{"a":null,"b":"z"}
{"a":3,"b":"w"}
X
cat > t.csv <<'X'
a,b
1,x
2,y
,z
3,w
X
cat > l.csv <<'X'
id,v
1,L1
2,L2
5,L5
X
check "json: where a = 1" "a,b
1,x" "select a, b from t.json where a = 1" -o csv
check "json: where a != 1" "a,b
2,y
3,w" "select a, b from t.json where a != 1" -o csv
check "json: where a in (1, 2)" "a,b
1,x
2,y" "select a, b from t.json where a in (1, 2)" -o csv
check "csv: where a = 1.0" "a,b
1,x" "select a, b from t.csv where a = 1.0" -o csv
check "join csv Int key with json number key" "v,b
L1,x
L2,y" "select l.v, t.b from l.csv l join t.json t on l.id = t.a order by v" -o csv
check "left join csv Int key with json number key" "v,b
L1,x
L2,y
L5," "select l.v, t.b from l.csv l left join t.json t on l.id = t.a order by v" -o csv
echo "--- for comparison, the ordering operators reject the same operand types at typecheck time:"
"$OCTOSQL" "select a, b from t.json where a >= 1" -o csv 2>&1 | grep '^Error'
finish
