#!/bin/sh
# usage: sh run.sh   (WT = octosql work tree)
WT=${WT:-/tmp/wt/H10}
HERE=$(cd $(dirname $0) && pwd)
export GOFLAGS=-mod=mod GOPROXY=off GOSUMDB=off GOTOOLCHAIN=local OCTOSQL_NO_TELEMETRY=1
[ -x $WT/_out/octosql ] || (cd $WT && go build -o $WT/_out/octosql .)
# the test plugin imports octosql packages, so it has to be built inside the module (directories starting with _ are ignored by ./...)
mkdir -p $WT/_h10_testplugin && cp $HERE/testplugin/main.go $WT/_h10_testplugin/main.go
D=$(mktemp -d)
(cd $WT && go build -o $D/testplugin ./_h10_testplugin) || exit 1
rm -rf $WT/_h10_testplugin
export HOME=$D/home XDG_CONFIG_HOME=$D/home/.config XDG_DATA_HOME=$D/home/.local XDG_CACHE_HOME=$D/home/.cache TESTPLUGIN_NO_INVALID=1
# two installed plugins, each the registered handler of one file extension (what `octosql plugin install` leaves behind
# for plugins that declare file_extensions, e.g. core/sqlite for "db" and core/excel for "xlsx")
for p in alpha beta; do
  mkdir -p $HOME/.octosql/plugins/core/octosql-plugin-$p/0.1.0
  cp $D/testplugin $HOME/.octosql/plugins/core/octosql-plugin-$p/0.1.0/octosql-plugin-$p
done
echo '{"aaa":"alpha","bbb":"beta"}' > $HOME/.octosql/file_extension_handlers.json
echo "file_extension_handlers.json: $(cat $HOME/.octosql/file_extension_handlers.json)"
echo "--- 12 x SELECT s FROM data.aaa WHERE id = 4   (extension aaa is registered for plugin alpha)"
for i in 1 2 3 4 5 6 7 8 9 10 11 12; do $WT/_out/octosql "SELECT s FROM data.aaa WHERE id = 4" -o json 2>&1 | tail -1; done | sort | uniq -c
echo "--- 12 x SELECT s FROM data.bbb WHERE id = 4   (extension bbb is registered for plugin beta)"
for i in 1 2 3 4 5 6 7 8 9 10 11 12; do $WT/_out/octosql "SELECT s FROM data.bbb WHERE id = 4" -o json 2>&1 | tail -1; done | sort | uniq -c
rm -rf $D
