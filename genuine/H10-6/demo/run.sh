#!/bin/sh
WT=${WT:-/tmp/wt/H10}
export GOFLAGS=-mod=mod GOPROXY=off GOSUMDB=off GOTOOLCHAIN=local OCTOSQL_NO_TELEMETRY=1
[ -x $WT/_out/octosql ] || (cd $WT && go build -o $WT/_out/octosql .)
D=$(mktemp -d); cd $D
printf 'delta,unit\n+5,m\n-3,m\n12,m\n' > data.csv
echo "--- data.csv:"; cat data.csv
echo "--- octosql --describe:"; $WT/_out/octosql "SELECT * FROM data.csv" --describe | tail -5
echo "--- octosql SELECT * FROM data.csv -o json:"
$WT/_out/octosql "SELECT * FROM data.csv" -o json 2>&1 | tail -3
echo "--- the same cell in a column that also holds text is read as a String although inference counted it as Int:"
printf 'delta,unit\n+5,m\nn/a,m\n12,m\n' > mixed.csv
$WT/_out/octosql "SELECT * FROM mixed.csv" --describe | tail -5
$WT/_out/octosql "SELECT delta FROM mixed.csv" -o json 2>&1 | tail -3
rm -rf $D
