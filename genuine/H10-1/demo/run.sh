#!/bin/sh
# usage: sh run.sh   (WT = octosql work tree, binary is built if missing)
WT=${WT:-/tmp/wt/H10}
export GOFLAGS=-mod=mod GOPROXY=off GOSUMDB=off GOTOOLCHAIN=local OCTOSQL_NO_TELEMETRY=1
[ -x $WT/_out/octosql ] || (cd $WT && go build -o $WT/_out/octosql .)
D=$(mktemp -d); cd $D
# input strings (JSON escapes): U+0001, BEL, VT, a quote followed by DEL, a quote followed by U+E0001, plain tab (control)
printf '%s\n' '{"id":1,"s":"a\u0001b"}' '{"id":2,"s":"bell\u0007"}' '{"id":3,"s":"vt\u000b"}' '{"id":4,"s":"q\"\u007f"}' '{"id":5,"s":"q\"\udb40\udc01"}' '{"id":6,"s":"tab\there"}' > data.json
echo "--- octosql -o json output:"
$WT/_out/octosql "SELECT * FROM data.json" -o json > out.jsonl 2>&1; cat out.jsonl
echo "--- decoding every output line with a JSON parser:"
python3 - <<'P'
import json
for n, line in enumerate(open('out.jsonl', encoding='utf-8'), 1):
    try:
        print(n, 'ok     ', repr(json.loads(line)['s']))
    except Exception as e:
        print(n, 'INVALID', line.rstrip(), '->', e)
P
rm -rf $D
