#!/bin/bash
# Finding 8 demo. Usage: bash run.sh   (set OCTOSQL=/path/to/octosql to use another binary)
O=${OCTOSQL:-/tmp/wt/H7/_out/octosql}
export HOME=$(mktemp -d) OCTOSQL_NO_TELEMETRY=1
D=$(mktemp -d); cd $D
flt() { grep -v '^  \|^$\|^Usage\|^Examples\|^Flags\|^Available\|^octosql \|^Use \|^goroutine\|^	\|^github.com\|^main\.\|^runtime\.\|^created by'; }
run() { echo "\$ octosql \"$Q\" $*"; $O "$Q" "$@" 2>&1 | flt; echo; }
printf 'id,k,v\n1,1,x\n2,2,y\n3,,z\n4,2,w\n5,7,q\n' > a.csv
printf 'id,k,name\n10,1,one\n11,2,two\n12,,nul\n13,2,deux\n14,9,nine\n' > b.csv
echo "### stream join: sides with equally named columns are rejected (fix a682b10)"
Q="SELECT * FROM a.csv a JOIN b.csv a ON a.k = a.k"; run -o csv
echo "### lookup join: accepted. a.k = a.k compares the left column with itself, so every left row with a non NULL k is paired with all rows of b;"
echo "### the right side's columns lose their names in the output"
Q="SELECT * FROM a.csv a LOOKUP JOIN b.csv a ON a.k = a.k"; run -o csv
Q="SELECT * FROM a.csv a LOOKUP JOIN b.csv a ON a.k = a.k"; run -o json
