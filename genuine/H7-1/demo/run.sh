#!/bin/bash
# Finding 1 demo. Usage: bash run.sh   (set OCTOSQL=/path/to/octosql to use another binary)
O=${OCTOSQL:-/tmp/wt/H7/_out/octosql}
export HOME=$(mktemp -d) OCTOSQL_NO_TELEMETRY=1
D=$(mktemp -d); cd $D
flt() { grep -v '^  \|^$\|^Usage\|^Examples\|^Flags\|^Available\|^octosql \|^Use \|^goroutine\|^	\|^github.com\|^main\.\|^runtime\.\|^created by'; }
run() { echo "\$ octosql \"$Q\" $*"; $O "$Q" "$@" 2>&1 | flt; echo; }
printf 'id,k,v\n1,1,x\n2,2,y\n3,,z\n4,2,w\n5,7,q\n' > a.csv
printf 'id,k,name\n10,1,one\n11,2,two\n12,,nul\n13,2,deux\n14,9,nine\n' > b.csv
echo "### rejected: the derived table's column alias 'k' equals a column name of the other side"
Q="SELECT a.id, x.name FROM a.csv a LEFT JOIN (SELECT b.k as k, b.name as name FROM b.csv b) x ON a.k = x.k"; run -o csv
Q="SELECT a.id, x.name FROM a.csv a RIGHT JOIN (SELECT b.k as k, b.name as name FROM b.csv b) x ON a.id = x.k"; run -o csv
Q="SELECT a.id, x.name FROM a.csv a OUTER JOIN (SELECT b.k as k, b.name as name FROM b.csv b) x ON x.k = a.k"; run -o csv
echo "### same query, alias renamed to 'kk': accepted and correct"
Q="SELECT a.id, x.name FROM a.csv a LEFT JOIN (SELECT b.k as kk, b.name as name FROM b.csv b) x ON a.k = x.kk"; run -o csv
echo "### same query as inner join: accepted"
Q="SELECT a.id, x.name FROM a.csv a JOIN (SELECT b.k as k, b.name as name FROM b.csv b) x ON a.k = x.k"; run -o csv
