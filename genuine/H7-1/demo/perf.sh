#!/bin/bash
# Finding 1, side effect on inner joins: the same false match keeps the optimizer from turning a.k = x.k into a join key,
# so the inner join runs as a cross product with a filter on top. Usage: bash perf.sh
O=${OCTOSQL:-/tmp/wt/H7/_out/octosql}
export HOME=$(mktemp -d) OCTOSQL_NO_TELEMETRY=1
D=$(mktemp -d); cd $D
{ echo "id,k"; seq 1 3000 | awk '{print $1","$1}'; } > big1.csv
{ echo "id,k"; seq 1 3000 | awk '{print $1","$1}'; } > big2.csv
echo "alias k (collides with a.k):"; time $O "SELECT count(*) as c FROM big1.csv a JOIN (SELECT b.k as k FROM big2.csv b) x ON a.k = x.k" -o csv
echo "alias kk:"; time $O "SELECT count(*) as c FROM big1.csv a JOIN (SELECT b.k as kk FROM big2.csv b) x ON a.k = x.kk" -o csv
