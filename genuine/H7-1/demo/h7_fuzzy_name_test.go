package optimizer

// Copy into optimizer/ and run: go test -vet=off -count=1 -run TestH7FuzzyUniqueNameMatch ./optimizer/

import (
	"testing"

	"github.com/cube2222/octosql/physical"
)

// Unique variable names are <user facing name>_<counter>, with one counter per user facing name.
// Column k of "a.csv a" becomes "a.k_0", the column aliased k of a derived table becomes "k_0".
// UsesVariablesFromSchema compares them with VariableNameMatchesField, which was written for user facing names
// (k matches a.k) and so takes the right side's k_0 for the left side's a.k_0.
func TestH7FuzzyUniqueNameMatch(t *testing.T) {
	left := physical.Schema{Fields: []physical.SchemaField{{Name: "a.id_0"}, {Name: "a.k_0"}}}
	if UsesVariablesFromSchema(left, []string{"k_0"}) {
		t.Errorf("variable k_0 (column k of the derived table on the right) is reported as a variable of the left schema [a.id_0 a.k_0]")
	}
}
