#!/bin/bash
# Finding 6 demo. Usage: bash run.sh   (set OCTOSQL=/path/to/octosql to use another binary)
O=${OCTOSQL:-/tmp/wt/H7/_out/octosql}
export HOME=$(mktemp -d) OCTOSQL_NO_TELEMETRY=1
D=$(mktemp -d); cd $D
flt() { grep -v '^  \|^$\|^Usage\|^Examples\|^Flags\|^Available\|^octosql \|^Use \|^goroutine\|^	\|^github.com\|^main\.\|^runtime\.\|^created by'; }
run() { echo "\$ octosql \"$Q\" $*"; $O "$Q" "$@" 2>&1 | flt; echo; }
printf 'id,k,v\n1,1,x\n2,2,y\n3,,z\n4,2,w\n5,7,q\n' > a.csv
printf 'id,k,name\n10,1,one\n11,2,two\n12,,nul\n13,2,deux\n14,9,nine\n' > b.csv
# column n looks like an Int column in the first 100 rows (schema inference), row 121 holds text
{ echo "id,n"; for i in $(seq 1 120); do echo "$i,$i"; done; echo "121,abc"; } > late.csv
printf 'id,k\n1,0\n2,2\n3,1\n' > z.csv
echo "### unused csv column with a cell that doesn't fit the inferred type"
Q="SELECT sum(l.id) as s FROM late.csv l"
run -o csv --optimize=false
run -o csv
echo "### unused subquery column whose expression fails"
Q="SELECT x.id FROM (SELECT z.id as id, 10 / z.k as q FROM z.csv z) x"
run -o csv --optimize=false
run -o csv
echo "### unused aggregate whose argument fails"
Q="SELECT x.id FROM (SELECT z.id as id, sum(10 / z.k) as q FROM z.csv z GROUP BY z.id) x"
run -o csv --optimize=false
run -o csv
