#!/bin/bash
# Finding 7: table valued function arguments whose type only *may* match get no run-time type assertion.
cd "$(dirname "$0")"
. ../../common/build.sh
run() { echo; echo "### $*"; $OCTOSQL "$@" 2>&1 | grep -v -E '^(Usage|  octosql|Examples|octosql "|Available|  completion|  help|  plugin|Flags|      --|  -|Use ")|^$' | head -12; echo "exit status: ${PIPESTATUS[0]}"; }
echo "### mixed.csv:"; cat mixed.csv
run "SELECT * FROM mixed.csv" --describe -o json
run "SELECT c.name, r.i FROM mixed.csv c LOOKUP JOIN range(start=>0, end=>c.k) r" -o json
echo; echo "### reference: a scalar function with the same 'maybe Int' argument gets a type assertion and fails the query"
run "SELECT c.name, c.k + 1 FROM mixed.csv c" -o json
echo; echo "### constants: a String / a NULL is used as Int 0"
run "SELECT * FROM range(start=>coalesce('a', 1), end=>3) r" -o json
run "SELECT * FROM range(start=>0, end=>int('3x')) r" -o json
