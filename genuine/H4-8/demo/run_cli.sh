#!/bin/sh
# Usage: run_cli.sh /path/to/octosql
OCTOSQL=${1:-./octosql}
export OCTOSQL_NO_TELEMETRY=1
D=$(mktemp -d); cd "$D"
cat > ev.json <<'JSON'
{"time": "2020-01-01T10:00:01Z", "user": "a"}
{"time": "2020-01-01T10:00:02Z", "user": "b"}
JSON
for wl in "INTERVAL 0 SECONDS" "INTERVAL 10 SECONDS - INTERVAL 20 SECONDS"; do
  echo "== window_length => $wl"
  "$OCTOSQL" "SELECT time, window_start, window_end FROM tumble(source=>TABLE(ev.json), window_length=>$wl, time_field=>DESCRIPTOR(time)) c" -o json
done
echo "== for comparison: max_diff_watermark rejects a non-positive resolution"
"$OCTOSQL" "SELECT * FROM max_diff_watermark(source=>TABLE(ev.json), max_diff=>INTERVAL 0 SECONDS, time_field=>DESCRIPTOR(time), resolution=>INTERVAL 0 SECONDS) c" -o json 2>&1 | grep -i "error" | head -2
