#!/bin/bash
# Finding 2: a CSV file whose header repeats a column name crashes the process when that column is selected.
cd "$(dirname "$0")"
. ../../common/build.sh
echo "### dup.csv:"; cat dup.csv
for Q in "SELECT a FROM dup.csv" "SELECT a, b FROM dup.csv" "SELECT b FROM dup.csv WHERE a > 0"; do
  echo; echo "### query: $Q"
  $OCTOSQL "$Q" -o json 2>&1 | head -8
  echo "exit status: ${PIPESTATUS[0]}"
done
echo; echo "### reference: SELECT b FROM dup.csv works"
$OCTOSQL "SELECT b FROM dup.csv" -o json; echo "exit status: $?"
