package aggregates

import (
	"math"
	"testing"

	"github.com/cube2222/octosql/octosql"
)

// copy into aggregates/ and run: go test -vet=off -count=1 -v -run TestSumFloatRetraction ./aggregates/
func TestSumFloatRetraction(t *testing.T) {
	for _, big := range []float64{math.Inf(1), math.MaxFloat64, 1e300, 1e17, math.NaN()} {
		for _, name := range []string{"sum", "avg", "sum_distinct", "avg_distinct"} {
			agg := Aggregates[name].Descriptors[1].Prototype() // [1] is the Float overload
			agg.Add(false, octosql.NewFloat(big))
			agg.Add(false, octosql.NewFloat(1))
			agg.Add(true, octosql.NewFloat(big))
			agg.Add(false, octosql.NewFloat(5))
			want := 6.0
			if name[:3] == "avg" {
				want = 3.0
			}
			got := agg.Trigger().Float
			if math.Abs(got-want) > 1e-9 || math.IsNaN(got) {
				t.Errorf("%s over +%g +1 -%g +5 (net {1,5}) = %v, want %v", name, big, big, got, want)
			}
		}
	}
}
