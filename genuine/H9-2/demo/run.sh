#!/bin/sh
OCTOSQL=${OCTOSQL:-/tmp/wt/H9/_out/octosql}
cd "$(dirname "$0")"
for f in big.json inf.csv; do
  echo "### $f"; cat $f
  echo "--- inner group by with default trigger (no retractions reach the outer aggregates): reference"
  $OCTOSQL "SELECT sum(m) as s, avg(m) as a, sum_distinct(m) as sd, avg_distinct(m) as ad, count(m) as c FROM (SELECT k, min(f) as m FROM $f GROUP BY k) t" -o json
  echo "--- inner group by TRIGGER COUNTING 1 (outer sees  +(a,big) +(b,1) -(a,big) +(a,5)): same net multiset {1, 5}"
  $OCTOSQL "SELECT sum(m) as s, avg(m) as a, sum_distinct(m) as sd, avg_distinct(m) as ad, count(m) as c FROM (SELECT k, min(f) as m FROM $f GROUP BY k TRIGGER COUNTING 1) t" -o json
  echo "--- what the outer group by receives"
  $OCTOSQL "SELECT k, min(f) as m FROM $f GROUP BY k TRIGGER COUNTING 1" -o stream_native
done
