#!/bin/sh
# Usage: sh run.sh            (builds the CLI from the worktree into _out/octosql if needed, ~1 minute)
#    or: OCTOSQL=/path/to/octosql sh run.sh
O=${OCTOSQL:-$(cd "$(dirname "$0")/../.." && pwd)/octosql}
if [ ! -x "$O" ]; then
  (cd "$(dirname "$0")/../../.." && GOFLAGS=-mod=mod GOPROXY=off GOSUMDB=off GOTOOLCHAIN=local go build -o "$O" .) || exit 1
fi
export OCTOSQL_NO_TELEMETRY=1
cd "$(dirname "$0")"
echo "--- describe"
$O "select * from ./bad_numbers.json" --describe
echo "--- rows"
$O "select * from ./bad_numbers.json" -o json
echo "exit code: $?"
echo "--- sum"
$O "select sum(a) as s from ./bad_numbers.json" -o json
