#!/bin/bash
# Finding 6: two unchecked assumptions in parser.ParseSelect / parser.ParseAggregate crash the process before typechecking.
cd "$(dirname "$0")"
. ../../common/build.sh
run() { echo; echo "### $*"; $OCTOSQL "$@" 2>&1 | head -7; echo "exit status: ${PIPESTATUS[0]}"; }
run "SELECT count() FROM t.json" -o json
run "SELECT g, sum() FROM t.json GROUP BY g" -o json
run "SELECT *, count(*) FROM t.json GROUP BY id" -o json
run "SELECT o->*, count(*) FROM t.json GROUP BY o" -o json
run "SELECT count() FROM t.json" --describe
