package table_valued_functions

// Copy into table_valued_functions/ and run:
//   go test -vet=off -count=1 -v -run TestH4PollOverRetractingSource ./table_valued_functions/

import (
	"errors"
	"testing"
	"time"

	"github.com/cube2222/octosql/execution"
	"github.com/cube2222/octosql/octosql"
)

type h4RetractingSource struct{}

// Emits the changelog +('a',1) -('a',1) +('a',2): its consolidated content is the single row ('a',2).
func (h4RetractingSource) Run(ctx execution.ExecutionContext, produce execution.ProduceFn, metaSend execution.MetaSendFn) error {
	pc := execution.ProduceFromExecutionContext(ctx)
	row := func(c int64) []octosql.Value { return []octosql.Value{octosql.NewString("a"), octosql.NewInt(c)} }
	if err := produce(pc, execution.NewRecord(row(1), false, time.Time{})); err != nil {
		return err
	}
	if err := produce(pc, execution.NewRecord(row(1), true, time.Time{})); err != nil {
		return err
	}
	return produce(pc, execution.NewRecord(row(2), false, time.Time{}))
}

func TestH4PollOverRetractingSource(t *testing.T) {
	p := &poll{source: h4RetractingSource{}, interval: execution.NewConstant(octosql.NewDuration(time.Millisecond))}
	stop := errors.New("stop")
	state := map[string]int{} // consolidated output, ignoring the poll time column
	watermarks := 0
	err := p.Run(execution.ExecutionContext{}, func(ctx execution.ProduceContext, r execution.Record) error {
		t.Logf("%s", r.String())
		k := r.Values[1].String() + "," + r.Values[2].String()
		if r.Retraction {
			state[k]--
		} else {
			state[k]++
		}
		if state[k] == 0 {
			delete(state, k)
		}
		return nil
	}, func(ctx execution.ProduceContext, msg execution.MetadataMessage) error {
		watermarks++
		t.Logf("watermark; consolidated output so far: %v", state)
		if len(state) != 1 || state["'a',2"] != 1 {
			t.Errorf("after poll round %d the consolidated output is %v, want exactly one row ('a',2)", watermarks, state)
		}
		if watermarks == 2 {
			return stop
		}
		return nil
	})
	if !errors.Is(err, stop) {
		t.Fatalf("unexpected: %v", err)
	}
}
