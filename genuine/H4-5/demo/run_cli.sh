#!/bin/sh
# Usage: run_cli.sh /path/to/octosql
# poll() over a source whose changelog contains retractions: the retractions come out of poll as additions.
OCTOSQL=${1:-./octosql}
export OCTOSQL_NO_TELEMETRY=1
D=$(mktemp -d); cd "$D"
cat > cnt.json <<'JSON'
{"k": "a"}
{"k": "a"}
{"k": "b"}
JSON
echo "== the source on its own (consolidates to ('a',2), ('b',1))"
"$OCTOSQL" "SELECT k, COUNT(*) AS c FROM cnt.json GROUP BY k TRIGGER COUNTING 1" -o stream_native
echo "== the same source through poll (first rounds)"
timeout 3 "$OCTOSQL" "WITH g AS (SELECT k, COUNT(*) AS c FROM cnt.json GROUP BY k TRIGGER COUNTING 1) SELECT * FROM poll(source=>TABLE(g), poll_interval=>INTERVAL 1 SECOND) p" -o stream_native 2>&1 | head -14
