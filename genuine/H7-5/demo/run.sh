#!/bin/bash
# Finding 5 demo. Usage: bash run.sh   (set OCTOSQL=/path/to/octosql to use another binary)
O=${OCTOSQL:-/tmp/wt/H7/_out/octosql}
export HOME=$(mktemp -d) OCTOSQL_NO_TELEMETRY=1
D=$(mktemp -d); cd $D
flt() { grep -v '^  \|^$\|^Usage\|^Examples\|^Flags\|^Available\|^octosql \|^Use \|^goroutine\|^	\|^github.com\|^main\.\|^runtime\.\|^created by'; }
run() { echo "\$ octosql \"$Q\" $*"; $O "$Q" "$@" 2>&1 | flt; echo; }
printf 'id,k,v\n1,1,x\n2,2,y\n3,,z\n4,2,w\n5,7,q\n' > a.csv
printf 'id,k,name\n10,1,one\n11,2,two\n12,,nul\n13,2,deux\n14,9,nine\n' > b.csv
printf 'id,k\n1,0\n2,2\n3,1\n' > z.csv
printf 'id,k\n30,1\n31,2\n' > n.csv
echo "### stream join, ON + WHERE"
Q="SELECT z.id, n.id FROM z.csv z JOIN n.csv n ON z.k = n.k WHERE 10 / z.k > 1"
run -o csv --optimize=false
run -o csv
echo "### stream join, one WHERE clause (the equality guards the division: AND stops at the first false conjunct)"
Q="SELECT z.id, n.id FROM z.csv z, n.csv n WHERE z.k = n.k AND 10 / z.k > 1"
run -o csv --optimize=false
run -o csv
echo "### lookup join"
Q="SELECT z.id, n.id FROM z.csv z LOOKUP JOIN n.csv n ON z.k = n.k WHERE 10 / z.k > 1"
run -o csv --optimize=false
run -o csv
