#!/bin/bash
# Finding 8: the same table (same alias) twice in FROM: crash with json output, rows shorter than the schema with csv/table output.
cd "$(dirname "$0")"
. ../../common/build.sh
run() { echo; echo "### $*"; $OCTOSQL "$@" 2>&1 | grep -v -E '^(Usage|  octosql|Examples|octosql "|Available|  completion|  help|  plugin|Flags|      --|  -|Use ")|^$' | head -9; echo "exit status: ${PIPESTATUS[0]}"; }
run "SELECT * FROM p.csv, p.csv" --describe -o json
run "SELECT * FROM p.csv, p.csv" -o json
run "SELECT * FROM p.csv, p.csv" -o csv
run "SELECT * FROM p.csv, p.csv" -o batch_table
run "SELECT * FROM p.csv p JOIN p.csv p ON true" -o json --optimize=false
run "SELECT * FROM p.json, p.json" -o json
echo; echo "### reference: distinct aliases work"
run "SELECT * FROM p.csv a, p.csv b" -o csv
