#!/bin/bash
# Finding 4 demo. Usage: bash run.sh   (set OCTOSQL=/path/to/octosql to use another binary)
O=${OCTOSQL:-/tmp/wt/H7/_out/octosql}
export HOME=$(mktemp -d) OCTOSQL_NO_TELEMETRY=1
D=$(mktemp -d); cd $D
flt() { grep -v '^  \|^$\|^Usage\|^Examples\|^Flags\|^Available\|^octosql \|^Use \|^goroutine\|^	\|^github.com\|^main\.\|^runtime\.\|^created by'; }
run() { echo "\$ octosql \"$Q\" $*"; $O "$Q" "$@" 2>&1 | flt; echo; }
printf 'id,k,v\n1,1,x\n2,2,y\n3,,z\n4,2,w\n5,7,q\n' > a.csv
printf 'id,k,name\n10,1,one\n11,2,two\n12,,nul\n13,2,deux\n14,9,nine\n' > b.csv
echo "### reference: the key columns written as a conjunction. Row 3 of a (k is NULL) stays unmatched."
Q="SELECT a.id, a.k, b.id, b.k FROM a.csv a LEFT JOIN b.csv b ON a.k = b.k AND a.id = b.id - 9"; run -o csv
echo "### the same condition written as a row value equality: a.id=3 (k NULL) is matched with b.id=12 (k NULL)"
Q="SELECT a.id, a.k, b.id, b.k FROM a.csv a LEFT JOIN b.csv b ON (a.k, a.id) = (b.k, b.id - 9)"; run -o csv
Q="SELECT a.id, a.k, b.id, b.k FROM a.csv a JOIN b.csv b ON (a.k, a.id) = (b.k, b.id - 9)"; run -o csv
Q="SELECT a.id, a.k, b.id, b.k FROM a.csv a JOIN b.csv b ON (a.k, a.id) = (b.k, b.id - 9)"; run -o csv --optimize=false
Q="SELECT a.id, a.k, b.id, b.k FROM a.csv a LOOKUP JOIN b.csv b ON (a.k, a.id) = (b.k, b.id - 9)"; run -o csv
echo "### the scalar pieces"
Q="SELECT NULL = NULL as scalar_eq, (NULL, 3) = (NULL, 3) as row_eq FROM dual"; run -o csv
