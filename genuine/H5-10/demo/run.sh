#!/bin/sh
# Usage: sh run.sh            (builds the CLI from the worktree into _out/octosql if needed, ~1 minute)
#    or: OCTOSQL=/path/to/octosql sh run.sh
O=${OCTOSQL:-$(cd "$(dirname "$0")/../.." && pwd)/octosql}
if [ ! -x "$O" ]; then
  (cd "$(dirname "$0")/../../.." && GOFLAGS=-mod=mod GOPROXY=off GOSUMDB=off GOTOOLCHAIN=local go build -o "$O" .) || exit 1
fi
export OCTOSQL_NO_TELEMETRY=1
cd "$(dirname "$0")"
echo "--- select *"
$O "select * from ./empty.parquet" -o json 2>&1 | grep -i "error\|panic"
echo "--- describe"
$O "select * from ./empty.parquet" --describe 2>&1 | grep -i "error\|panic"
echo "--- count"
$O "select count(*) as c from ./empty.parquet" -o json 2>&1 | grep -i "error\|panic"
