#!/bin/sh
# Usage: sh run.sh            (builds the CLI from the worktree into _out/octosql if needed, ~1 minute)
#    or: OCTOSQL=/path/to/octosql sh run.sh
O=${OCTOSQL:-$(cd "$(dirname "$0")/../.." && pwd)/octosql}
if [ ! -x "$O" ]; then
  (cd "$(dirname "$0")/../../.." && GOFLAGS=-mod=mod GOPROXY=off GOSUMDB=off GOTOOLCHAIN=local go build -o "$O" .) || exit 1
fi
export OCTOSQL_NO_TELEMETRY=1
cd "$(dirname "$0")"
echo "--- 3 rows in"
$O "select count(*) as rows_in from ./n.json" -o json
echo "--- -o csv bytes"
$O "select a from ./n.json" -o csv | od -c
$O "select a from ./n.json" -o csv > ./out.csv
echo "--- records a CSV reader decodes from that output (python csv, header skipped)"
python3 -c "
import csv
rows=list(csv.reader(open('out.csv')))[1:]
print(rows, 'records with a field:', len([r for r in rows if len(r)==1]))"
echo "--- reading the output back with octosql"
$O "select count(*) as rows_back from ./out.csv" -o json
rm -f ./out.csv
