#!/bin/sh
# usage: sh run.sh [path-to-octosql-binary]
OCTOSQL=${1:-/tmp/wt/H6/_out/octosql}
export OCTOSQL_NO_TELEMETRY=1
D=$(mktemp -d); cd "$D"
printf 'a,b,d\n1,,true\n2,,false\n' > n.csv            # column b is empty in every row -> type NULL
printf 'a,b,d\n1,,true\n2,7,false\n' > m.csv           # same, but one b is filled -> type NULL | Int
printf '{"a":1,"b":null}\n{"a":2,"b":null}\n' > n.json
run() { echo "== $1"; "$OCTOSQL" "$1" -o csv 2>&1 | tail -3 | grep -v '^$' | grep -v 'octosql \[command\]'; }
echo "##### literal NULL as argument of a strict function (expected: NULL in every row)"
run "SELECT NOT NULL FROM n.csv"
run "SELECT 1 < NULL FROM n.csv"
run "SELECT a + NULL FROM n.csv"
run "SELECT - NULL FROM n.csv"
run "SELECT upper(NULL) FROM n.csv"
run "SELECT NULL LIKE 'a' FROM n.csv"
echo "##### the same through a column that is NULL in every row (expected: NULL in every row)"
run "SELECT a, a + b FROM n.csv"
run "SELECT a, a < b FROM n.csv"
run "SELECT a FROM n.csv WHERE NOT b"
run "SELECT a, a + b FROM n.json"
echo "##### reference: same queries once one value of b is present; and the forms that do work"
run "SELECT a, a + b, a < b FROM m.csv"
run "SELECT NULL = 1, NULL AND false, NULL OR true, NULL IS NULL, NULL IN (1, 2), coalesce(NULL, 1), a = b, b IS NULL FROM n.csv LIMIT 1"
rm -rf "$D"
