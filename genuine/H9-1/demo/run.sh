#!/bin/sh
# usage: sh run.sh   (from anywhere; expects the binary at /tmp/wt/H9/_out/octosql, override with OCTOSQL=...)
OCTOSQL=${OCTOSQL:-/tmp/wt/H9/_out/octosql}
cd "$(dirname "$0")"

WITH="WITH ww AS (SELECT * FROM max_diff_watermark(source=>TABLE(clicks.json), max_diff=>INTERVAL 0 SECONDS, time_field=>DESCRIPTOR(t)) w),
 tt AS (SELECT * FROM tumble(source=>TABLE(ww), window_length=>INTERVAL 10 SECONDS) tt),
 per AS (SELECT window_end, k, count(*) as c FROM tt GROUP BY window_end, k)"
Q="$WITH SELECT window_end, sum(c) as s, count(*) as n FROM per GROUP BY window_end"

echo "### demo A: two-level windowed aggregation (per window+key with the default trigger, then per window)"
echo "--- reference: plain batch grouping (no TRIGGER clause), -o json"
$OCTOSQL "$Q" -o json
echo "--- TRIGGER ON WATERMARK, -o json  (expected: the same 3 rows)"
$OCTOSQL "$Q TRIGGER ON WATERMARK" -o json
echo "--- TRIGGER ON WATERMARK, -o csv"
$OCTOSQL "$Q TRIGGER ON WATERMARK" -o csv
echo "--- TRIGGER ON WATERMARK, -o stream_native (shows the retractions the plan claims not to have)"
$OCTOSQL "$Q TRIGGER ON WATERMARK" -o stream_native
echo "--- TRIGGER ON WATERMARK LIMIT 3, -o batch_table (expected: the 3 rows)"
$OCTOSQL "$Q TRIGGER ON WATERMARK LIMIT 3" -o batch_table
echo "--- reference LIMIT 3 without trigger"
$OCTOSQL "$Q LIMIT 3" -o batch_table

W2="WITH ww AS (SELECT * FROM max_diff_watermark(source=>TABLE(two_times.json), max_diff=>INTERVAL 0 SECONDS, time_field=>DESCRIPTOR(t)) w)"
Q2="$W2 SELECT window_end, count(*) as c, sum(x) as s FROM tumble(source=>TABLE(ww), window_length=>INTERVAL 10 SECONDS, time_field=>DESCRIPTOR(t2)) tt GROUP BY window_end"
echo
echo "### demo B: single group by, windows built on another time column than the watermarked one"
echo "--- reference: plain batch grouping, -o json"
$OCTOSQL "$Q2" -o json
echo "--- TRIGGER ON WATERMARK, -o json (expected: the same single row)"
$OCTOSQL "$Q2 TRIGGER ON WATERMARK" -o json
echo "--- TRIGGER ON WATERMARK, -o stream_native"
$OCTOSQL "$Q2 TRIGGER ON WATERMARK" -o stream_native
