#!/bin/sh
# Usage: OCTOSQL_BIN=/path/to/octosql ./run.sh
cd "$(dirname "$0")"
export OCTOSQL_NO_TELEMETRY=1
BIN=${OCTOSQL_BIN:-octosql}
echo 'expected: {"s":"abc","l":3,"same":true,"i":12,"u":"A"}'
$BIN "select string('abc') as s, len(string('abc')) as l, string('abc') = 'abc' as same, int(string('12')) as i, upper(string(s)) as u from ./s.json" -o json 2>&1 | tail -3
