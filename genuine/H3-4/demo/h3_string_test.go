package functions

// Copy into <repo>/functions/ and run:
//   go test -vet=off -count=1 -run TestH3StringConversion ./functions/

import (
	"testing"
	"time"

	"github.com/cube2222/octosql/octosql"
)

func TestH3StringConversion(t *testing.T) {
	fm := FunctionMap()
	str := fm["string"].Descriptors[0].Function
	toInt := fm["int"].Descriptors[3].Function // int(String)

	// 1. string(<String>) must be the identity.
	for _, s := range []string{"abc", "", "12", "it's"} {
		got, err := str([]octosql.Value{octosql.NewString(s)})
		if err != nil {
			t.Fatal(err)
		}
		if got.Str != s {
			t.Errorf("string(%q) = %q, want %q", s, got.Str, s)
		}
	}

	// 2. int(string(int(x))) round trip: string(12) = "12" parses, but string('12') doesn't any more.
	got, _ := str([]octosql.Value{octosql.NewString("12")})
	back, _ := toInt([]octosql.Value{got})
	if back.TypeID != octosql.TypeIDInt || back.Int != 12 {
		t.Errorf("int(string('12')) = %v, want 12", back)
	}

	// 3. string(<Time>) silently drops the sub-second part, so two different times convert to the same string.
	t1 := time.Date(2020, 1, 1, 0, 0, 0, 0, time.UTC)
	t2 := t1.Add(500 * time.Millisecond)
	s1, _ := str([]octosql.Value{octosql.NewTime(t1)})
	s2, _ := str([]octosql.Value{octosql.NewTime(t2)})
	if s1.Str == s2.Str {
		t.Errorf("string(%v) == string(%v) == %q although the times differ", t1, t2, s1.Str)
	}
}
