package sqlparser

// Copy into parser/sqlparser/ and run:
//   go test -vet=off -count=1 -run TestH5StringLiteralRoundTrip ./parser/sqlparser/

import (
	"reflect"
	"testing"
)

func TestH5StringLiteralRoundTrip(t *testing.T) {
	for _, sql := range []string{
		`select * from t where name = 'say "hi"'`,
		`select '"' from t`,
		"select 'a\tb' from t",  // a TAB inside the literal
		"select 'a\rb' from t",  // a CR inside the literal
		"select 'a\x00b' from t", // NUL
		"select 'a\x1ab' from t", // ctrl-Z
		"select 'a\bb' from t",   // backspace
		`select * from f(a => 'x"y') z`,
		`select a from t trigger counting len('"')`,
	} {
		tree, err := Parse(sql)
		if err != nil {
			t.Errorf("%q: %v", sql, err)
			continue
		}
		printed := String(tree)
		tree2, err := Parse(printed)
		if err != nil {
			t.Errorf("%q printed as %q does not parse: %v", sql, printed, err)
			continue
		}
		if !reflect.DeepEqual(tree, tree2) {
			var lit1, lit2 []byte
			Walk(func(n SQLNode) (bool, error) {
				if v, ok := n.(*SQLVal); ok && v.Type == StrVal {
					lit1 = v.Val
				}
				return true, nil
			}, tree)
			Walk(func(n SQLNode) (bool, error) {
				if v, ok := n.(*SQLVal); ok && v.Type == StrVal {
					lit2 = v.Val
				}
				return true, nil
			}, tree2)
			t.Errorf("%q\n    prints as      %q\n    which parses to a different tree (prints as %q); string literal %q became %q", sql, printed, String(tree2), lit1, lit2)
		}
	}
}
