#!/bin/sh
WT=${WT:-/tmp/wt/H10}
export GOFLAGS=-mod=mod GOPROXY=off GOSUMDB=off GOTOOLCHAIN=local OCTOSQL_NO_TELEMETRY=1
[ -x $WT/_out/octosql ] || (cd $WT && go build -o $WT/_out/octosql .)
D=$(mktemp -d); cd $D
printf '%s\n' '{"id":1,"tag":"a","tag":"b"}' '{"id":2}' '{"id":3,"tag":"c"}' > dup.json
printf '%s\n' '{"id":1,"tag":"a"}' '{"id":2}' '{"id":3,"tag":"c"}' > nodup.json
for f in nodup dup; do
  echo "--- $f.json:"; cat $f.json
  $WT/_out/octosql "SELECT * FROM $f.json" --describe 2>&1 | tail -5
  $WT/_out/octosql "SELECT * FROM $f.json" -o json 2>&1 | tail -3
done
rm -rf $D
