#!/bin/sh
OCTOSQL=${OCTOSQL:-/tmp/wt/H9/_out/octosql}
cd "$(dirname "$0")"
cat old.json
W="WITH a AS (SELECT * FROM max_diff_watermark(source=>TABLE(old.json), max_diff=>INTERVAL 0 SECONDS, time_field=>DESCRIPTOR(t)) w)"
echo "--- reference: grouping the file directly"
$OCTOSQL "SELECT k, count(*) as c, sum(x) as s FROM old.json GROUP BY k" -o json
echo "--- the same over max_diff_watermark (records are in time order, none is late; expected: same rows)"
$OCTOSQL "$W SELECT k, count(*) as c, sum(x) as s FROM a GROUP BY k" -o json
echo "--- with TRIGGER COUNTING 1"
$OCTOSQL "$W SELECT k, count(*) as c, sum(x) as s FROM a GROUP BY k TRIGGER COUNTING 1" -o json
echo "--- what max_diff_watermark emits (-o stream_native)"
$OCTOSQL "$W SELECT * FROM a" -o stream_native
