package octosql

import (
	"fmt"
	"testing"
)

func h8List(e *Type) Type { return Type{TypeID: TypeIDList, List: struct{ Element *Type }{Element: e}} }
func h8Struct(fs ...StructField) Type {
	return Type{TypeID: TypeIDStruct, Struct: struct{ Fields []StructField }{Fields: fs}}
}
func h8Tuple(es ...Type) Type {
	return Type{TypeID: TypeIDTuple, Tuple: struct{ Elements []Type }{Elements: es}}
}

func h8Universe() []Type {
	base := []Type{Null, Int, Float, Boolean, String, Time, Duration, Any}
	var level1 []Type
	level1 = append(level1, base...)
	level1 = append(level1, h8List(nil))
	for i := range base {
		b := base[i]
		level1 = append(level1, h8List(&b))
		level1 = append(level1, h8Struct(StructField{"a", b}))
		level1 = append(level1, h8Tuple(b))
	}
	level1 = append(level1, h8Struct(), h8Tuple(), h8Struct(StructField{"a", Int}, StructField{"b", String}), h8Struct(StructField{"b", String}, StructField{"a", Int}), h8Struct(StructField{"b", Int}), h8Tuple(Int, String), h8Tuple(Int, Int, Int))
	// unions built with TypeSum
	out := append([]Type{}, level1...)
	for i := range level1 {
		for j := range level1 {
			if i < j && (i+j)%3 == 0 {
				out = append(out, TypeSum(level1[i], level1[j]))
			}
		}
	}
	return out
}

func TestH8Algebra(t *testing.T) {
	u := h8Universe()
	t.Logf("universe size %d", len(u))
	fails := map[string]int{}
	report := func(kind string, msg string) {
		fails[kind]++
		if fails[kind] <= 8 {
			t.Errorf("%s: %s", kind, msg)
		}
	}
	for _, a := range u {
		if a.Is(a) != TypeRelationIs {
			report("reflexive", a.String())
		}
		if !TypeSum(a, a).Equals(a) {
			report("idempotent", fmt.Sprintf("%s -> %s", a, TypeSum(a, a)))
		}
		nn := NonNullable(a)
		if a.TypeID == TypeIDUnion {
			if Null.Is(nn) == TypeRelationIs && !nn.Equals(Null) {
				report("nonnullable-keeps-null", fmt.Sprintf("%s -> %s", a, nn))
			}
			if nn.Is(a) != TypeRelationIs {
				report("nonnullable-not-subtype", fmt.Sprintf("%s -> %s", a, nn))
			}
			if !TypeSum(nn, Null).Equals(TypeSum(a, Null)) {
				report("nonnullable-removes-more", fmt.Sprintf("%s -> %s", a, nn))
			}
		}
	}
	for _, a := range u {
		for _, b := range u {
			s := TypeSum(a, b)
			if a.Is(s) != TypeRelationIs {
				report("sum-not-upper-bound", fmt.Sprintf("a=%s b=%s sum=%s a.Is(sum)=%d", a, b, s, a.Is(s)))
			}
			if b.Is(s) != TypeRelationIs {
				report("sum-not-upper-bound", fmt.Sprintf("a=%s b=%s sum=%s b.Is(sum)=%d", a, b, s, b.Is(s)))
			}
			s2 := TypeSum(b, a)
			if !s.Equals(s2) {
				report("sum-not-commutative", fmt.Sprintf("a=%s b=%s ab=%s ba=%s", a, b, s, s2))
			}
			if in := TypeIntersection(a, b); in != nil {
				if in.Is(a) != TypeRelationIs || in.Is(b) != TypeRelationIs {
					report("intersection-not-contained", fmt.Sprintf("a=%s b=%s in=%s", a, b, *in))
				}
			}
		}
	}
	for k, v := range fails {
		t.Logf("FAIL KIND %s: %d", k, v)
	}
}

// The two smallest counterexamples, spelled out.
func TestH8SumIsNotAnUpperBound(t *testing.T) {
	a := h8Struct(StructField{"a", Int})
	b := h8Struct(StructField{"b", Int})
	sum := TypeSum(a, b)
	t.Logf("TypeSum(%s, %s) = %s", a, b, sum)
	if a.Is(sum) != TypeRelationIs || b.Is(sum) != TypeRelationIs {
		t.Errorf("struct: a.Is(sum)=%d b.Is(sum)=%d, want %d (Is)", a.Is(sum), b.Is(sum), TypeRelationIs)
	}
	if in := TypeIntersection(a, sum); in != nil {
		t.Errorf("unexpected intersection %s", *in)
	} else {
		t.Logf("TypeIntersection(a, TypeSum(a,b)) is empty (nil)")
	}

	c := h8Tuple(Int)
	d := h8Tuple(Int, String)
	sum = TypeSum(c, d)
	t.Logf("TypeSum(%s, %s) = %s", c, d, sum)
	if c.Is(sum) != TypeRelationIs || d.Is(sum) != TypeRelationIs {
		t.Errorf("tuple: c.Is(sum)=%d d.Is(sum)=%d, want %d (Is)", c.Is(sum), d.Is(sum), TypeRelationIs)
	}
}
