#!/bin/sh
# usage: sh run.sh [path-to-octosql-binary]
OCTOSQL=${1:-/tmp/wt/H6/_out/octosql}
export OCTOSQL_NO_TELEMETRY=1
D=$(mktemp -d); cd "$D"
printf 'k,g\n1,a\n2,b\n3,c\n' > u.csv
run() { echo "== $1   [$2]"; "$OCTOSQL" "$1" -o $2 2>&1 | tail -5 | grep -v 'octosql \[command\]'; }
echo "##### expected: an error (there is no table 'nosuch' / the table is called 'uu')"
run "SELECT nosuch.* FROM u.csv" json
run "SELECT nosuch.* FROM u.csv" csv
run "SELECT nosuch.* FROM u.csv" batch_table
run "SELECT u.* FROM u.csv uu" json
run "SELECT nosuch.*, k FROM u.csv" json
echo "##### consequence: DISTINCT / count over it"
run "SELECT DISTINCT nosuch.* FROM u.csv" json
run "SELECT count(*) FROM (SELECT nosuch.* FROM u.csv) q" json
echo "##### reference: an unknown qualifier on a column is rejected"
run "SELECT nosuch.k FROM u.csv" json
rm -rf "$D"
